#!/usr/bin/env python3
"""Regenerates seeded/README.md and completes seeded/*/meta.json (what each change needs in order to manifest)."""
import json, os
N = {
"C01": ("C01", "a string value or key containing a code point that is both above U+FFFF and non-printable (U+E0001, planes 15/16, noncharacters): quote() writes a truncated 4-digit escape"),
"C01-2": ("C01", "a tree containing an EMPTY list that has been serialised before (String() twice on the same container) or is referenced from two places: a re-entrancy flag leaks on the empty-list early return and later serialisations print null"),
"C02": ("C02", "same class of input as C01 (astral non-printable code point) written as a truncated \\uXXXX escape: valid JSON denoting other data"),
"C02-2": ("C02", "history: String() once, then Unset of a key and Set of as many new keys, then String() again: a sorted-key cache validated by count silently omits the new keys"),
"C03": ("C03", "an object key whose decoded form contains a backslash AND whitespace between the key and the colon (key unquoted once per character seen in stateAfterKey)"),
"C03-2": ("C03", "ONE string value that mixes a short escape (\\\\ \\\" \\n ...) with a \\uXXXX escape: short escapes are decoded inline, then the whole buffer is unquoted again"),
"C04": ("C04", "ill-formed UTF-8 inside a string value, not as its first character, with a closing quote or backslash later (bulk copy skips the UTF-8 guard)"),
"C04-2": ("C04", "ParseFile called twice in one process, the later file shorter and invalid (truncated/empty): a shared read buffer supplies the stale tail of the earlier file"),
"C05": ("C05", "Concat on a receiver with spare capacity >= len(argument), then a growing write on the receiver or a second Concat, then observing the first result"),
"C05-2": ("C05", "Replace with a value of the SAME scalar kind on a slot whose field object is shared (NewListOf(v,n>=2), SubList/Concat relatives): the scalar box is overwritten in place"),
"C06": ("C06", "recv.Merge(arg) with arg.Count() > recv.Count() and a shared key with different values (roles swapped: receiver wins)"),
"C06-2": ("C06", "Keys() called once, then >= 2 mutations that change the key set but restore the count WITHOUT a Keys() call in between, then Keys(): cache validated only by the field count"),
"C06-merge-empty-receiver": ("C06", "Merge on an EMPTY receiver returns a deep copy of the argument (nested containers are copies instead of the argument's own). First classified as outside the statement; a second independent author chose the same change in round 5, and the reading was tightened: the result must hold the ARGUMENT's own containers ('prefers the argument's value'; a container value is a reference), the receiver's side stays open. Reported since then."),
"C07": ("C07", "two objects with the same key count where every receiver key missing on the other side holds nil (atNil.isEqual accepts an untyped nil = missing key)"),
"C07-2": ("C07", "the receiver list holds ONE field object in two adjacent slots (NewListOf(v,n>=2), or the same nested container twice) and the other operand differs in the 2nd+ slot of the run"),
"C08": ("C08", "a list produced by Concat, SubList or NewListOf that holds a nested container, then Clone (cached 'nested' flag not maintained by those constructors), then a mutation or identity comparison"),
"C08-2": ("C08", "a tree that contains, below the root, a container of a DERIVED type (user struct embedding List/Object): the concrete-type switch in copy() stores the identical container in the clone"),
"C09": ("C09", "recv.Concat(<empty list>) (clipped-capacity append returns the receiver's own array), then an in-place slot mutation on either side"),
"C09-2": ("C09", "derive with SubList or Concat (field objects are shared), then Sort a homogeneous, unsorted list on either side: sorted values are written into the shared scalar boxes"),
"C10": ("C10", "a tree-form read whose path has a NON-ASCII object key in a non-final segment (rune index used as byte offset)"),
"C10-2": ("C10", "the tree holds the EMPTY-string key and the path ends in a bare '.' exactly at that object (length check dropped from the sigil guard)"),
"C11": ("C11", "on one list: an element removal (stale slot behind len), then SetTF with index > n and index < cap: padding re-slices into the stale slot instead of writing nil"),
"C11-2": ("C11", "SetTF leaf write of the same scalar kind on a list whose slots share one field object (NewListOf, SubList/Concat results): in-place overwrite shows in every sharing slot"),
"C12": ("C12", "a value of a defined type with numeric underlying kind (time.Duration, time.Month, type celsius float64, uintptr): accepted through reflect instead of rejected"),
"C12-2": ("C12", "an EMPTY []any / map[string]any passed as a value twice: both conversions return one shared package-level container; mutating one shows in the other"),
"C13": ("C13", "a container with an EMPTY object at some depth, NativeDict/NativeSlice, then writing into the returned empty map: a package-level map shared by all later conversions"),
"C13-2": ("C13", "the same Object/List instance occurring twice in one converted tree (acyclic graph): a never-forgetting cycle guard converts the second occurrence to nil"),
"C14": ("C14", "untyped Filter with a predicate that is not a pure function of its argument (evaluated twice per element)"),
"C14-2": ("C14", "a list consisting only of objects (or lists) where at least one is a DERIVED structure: AllObjects/AllLists assert the concrete type"),
"C15": ("C15", "two goroutines serialising at the same time while a string value or key is present: quote() reuses one package-level buffer"),
"C15-2": ("C15", "list.ForEachAsync with count >= 4*GOMAXPROCS and count % GOMAXPROCS != 0: a chunked fast path drops the remainder elements"),
"C16": ("C16", "a string value or key whose content ENDS with a backslash (hand-written indenter mistakes the closing quote after an escaped backslash)"),
"C16-2": ("C16", "FormatString(b) before a mutation, after it FormatString(a) with a != b first and then FormatString(b): per-indent memo cleared for the current indent only"),
"C17": ("C17", "Sort on a list containing the same scalar field object twice (NewListOf(v,n>=2) plus another value, l.Concat(l)): sorted values written back into shared fields"),
"C17-2": ("C17", "a list that has already been sorted, then Insert at a position before the end, then Sort again: stale 'already sorted' flag (Insert's shifting branch does not drop it)"),
"C18": ("C18", "Sum with int elements whose partial int sum overflows, or ints mixed with floats above 2^53 (ints accumulated separately in an int)"),
"C18-2": ("C18", "Sum/Avg called once, then Insert of a non-zero number below Count(), then Sum/Avg again: memoised sum not invalidated by Insert's shifting branch"),
"C19": ("C19", "SetTF(\"#i\", v) with i > Count() on a DERIVED list: the new padding fast path returns the embedded list"),
"C19-2": ("C19", "a derived value stored under a key of an Object, then a tree-form write on the container whose path passes THROUGH that key: concrete-type assertion misses, the derived value is replaced by a plain container"),
"C20": ("C20", "a string value followed by >= 2 filler characters with a newline that is not the first of them (blank line, trailing space, CRLF), then a later error citing a line"),
"C20-2": ("C20", "the same short invalid literal rejected earlier in the process on a different line: memoised (value, error) replays the first message with its stale line"),
 "C01-3": ("C01", "an object (at any depth) with a KEY containing '%': the quoted key became part of a Fprintf format string"),
 "C02-3": ("C02", "a container that came out of the PARSER from a text with a Go-only escape (\\x41, \\a, \\v) or a raw control character in a string value: String() re-emits the kept original literal"),
 "C03-3": ("C03", "a NEGATIVE integer literal with exactly 19 digits that fits int64 (length check forgot the sign): parsed as float64"),
 "C04-3": ("C04", "the lone bytes 0x85 / 0xA0 (Latin-1 NEL / NBSP) directly after a whitespace character where the parser skips whitespace: swallowed byte-wise without reaching the UTF-8 guard"),
 "C05-3": ("C05", "SubList over the whole range (SubList(0,0), SubList(0,n)) returns the receiver itself; visible after a later mutation of either side"),
 "C06-3": ("C06", "Set of a DISTINCT container that is deep-equal to the one already stored under the key keeps the old reference (Set skips 'unchanged' values)"),
 "C07-3": ("C07", "lists of >= 512 elements whose length is not a multiple of 256, differing only in the tail remainder (parallel block comparison dispatches full blocks only)"),
 "C08-3": ("C08", "Clone of a list with >= 512 elements, length not a multiple of 256, holding a nested container in the last partial chunk"),
 "C09-3": ("C09", "Pluck(keys...) with the keys passed as a spread slice that is not already sorted: the callee sorts the caller's slice in place (argument modified)"),
 "C10-3": ("C10", "a list index segment of 20+ digits congruent modulo 2^64 to a valid index (hand-written decimal conversion overflows silently)"),
"C11-3": ("C11", "an object with a key that ends in white space (\"a \") next to the trimmed key (\"a\"), and a tree-form path whose LAST key segment is the white-space key: every level trims the remaining path, so the write/unset hits the sibling"),
"C12-3": ("C12", "Add with SEVERAL values of which a later one is unsupported: the slice was grown before conversion, the rejected and following slots stay as kind-less nil fields"),
"C13-3": ("C13", "NativeSlice of a list with > 256 elements, length not a multiple of 256, holding a nested container in the last partial chunk (remainder never converted)"),
"C14-3": ("C14", "typed object maps (MapStrings ...) on an object with >= 2 fields of the same kind: results paired with keys across two independent Go map iterations - wrong only for some iteration orders (intermittent)"),
"C15-3": ("C15", "two goroutines calling Equals on the SAME list node with an equal-length operand that differs late: a 'visiting' flag written by the non-mutating Equals makes the second call return true (and is a data race)"),
"C16-3": ("C16", "FormatString of a container holding, at depth >= 2, a single output line of >= 64 KiB (long string): bufio.Scanner token limit drops the rest of the child"),
"C17-3": ("C17", "Sort of an all-int list with two values whose difference overflows int (MaxInt with a negative value, MinInt with a positive one): comparison by subtraction"),
"C18-3": ("C18", "IntMin on a list whose int elements are all math.MaxInt / IntMax where all are math.MinInt: the fold's sentinel is mistaken for 'no int present'"),
"C19-3": ("C19", "Sort called on a DERIVED list whose content is homogeneous and already in order: early return hands back the embedded list instead of the registered outer value"),
"C20-3": ("C20", "a raw newline INSIDE a string literal (value or key) before a later syntax error: the fast path skips the line counter, cited line too small"),
"C01-4": ("C01", "a FLOAT that is whole-valued with 1e6 <= |v| < 2^53 (printed in exponent form): the parser turns exponent-notation whole numbers into ints"),
"C02-4": ("C02", "the float 2^63 exactly: a 'print whole floats in full' fast path converts through int64 and emits -9223372036854775808.0"),
"C03-4": ("C03", "a literal U+FFFD character (EF BF BD) anywhere in a valid document: validity test reduced to char == RuneError"),
"C04-4": ("C04", "an input that ENDS with a backslash inside a string or key: unchecked one-byte look-ahead panics (totality)"),
"C05-4": ("C05", "l.Concat(l) (argument identical to the receiver) on a list holding nested containers: the argument is deep-cloned, so the second half holds copies"),
"C06-4": ("C06", "Set with an ODD count of >= 3 arguments: the leading pairs are written before the panic (under our reading an odd count rejects the whole call)"),
"C07-4": ("C07", "trees that differ only in a NESTED empty list vs empty object: size-based early 'continue' skips the kind test"),
"C08-4": ("C08", "Clone of a list holding nested containers, observed through handles taken BEFORE the call: the clone keeps the source's nodes, the source receives the copies"),
"C09-4": ("C09", "SubList over the whole range copies the struct including the self-pointer: Ego-routed calls on the result (Pop, Insert at end, chained calls, String) act on the receiver"),
"C10-4": ("C10", "TypeOfTF with a NON-final list index equal to Count(): hand-written bounds check uses > instead of >=, panic instead of TypeUndefined"),
"C11-4": ("C11", "SetTF whose leaf slot already holds a deep-EQUAL but not identical value (distinct container with equal content, 0.0 vs -0.0): write skipped"),
"C12-4": ("C12", "a nil element inside []Object / []List passed to any entry point: stored as a kind-less nil field"),
"C13-4": ("C13", "list -> list -> container chains: the inner list is exported one level only (Slice instead of NativeSlice)"),
"C14-4": ("C14", "untyped Reduce on a list containing nil: generic helper's x.(any) assertion fails for nil, element skipped"),
"C15-4": ("C15", "a MapAsync callback that itself calls MapAsync (any container): the per-call mutex became package-level, the inner workers wait for the lock held by the outer worker - deadlock"),
"C16-4": ("C16", "indent x nesting depth > 128 spaces (depth >= 13 at indent 10 ... >= 129 at indent 1): indentation cut from a 64-space constant in at most two pieces - slice bounds panic"),
"C17-4": ("C17", "an all-int list with two DIFFERENT ints above 2^53 that round to the same float64, out of order: numeric Sort orders by float64 value"),
"C18-4": ("C18", "IntMin/IntMax on a list where a non-int element precedes an int: filter-in-place idiom compacts the receiver's own backing array (the call modifies the list)"),
"C19-4": ("C19", "object UnsetTF with a path through a nested OBJECT (.a.b): tail call returns the nested object instead of the registered outer value"),
"C20-4": ("C20", "ParseFile (only) on a file with a lone CR before the error: line endings 'normalised' to LF before parsing, cited line too large"),
"C01-5": ("C01", "ONE string value containing both a character serialised as \\u00XX (C0 control other than \\b\\f\\n\\r\\t, DEL) and a quote / backslash / line feed: short escapes resolved inline, then the whole buffer decoded a second time"),
"C02-5": ("C02", "an object KEY containing '%': the quoted key became part of an Fprintf format string (variant of C01-3 in another code site)"),
"C03-5": ("C03", "a decimal literal with a fraction, no exponent, whose 16-19 digits form an integer in [2^53, 2^63): digits converted as one integer and divided by a power of ten (double rounding, ~10 % of such literals are 1 ulp off)"),
"C04-5": ("C04", "a LIST string element that ends with an escaped backslash, followed later by a string containing ']': 'previous char is a backslash' mistaken for 'the quote is escaped', a proper prefix is accepted"),
"C05-5": ("C05", "Contains/IndexOf with a List/Object argument while the receiver holds a DIFFERENT but deep-equal container: lookup by structure instead of identity"),
"C06-5": ("C06", "Merge on an EMPTY receiver returns a deep copy of the argument: the result does not hold the argument's own containers (same idea as round 1's C06-merge-empty-receiver; from round 5 on reported, see DESIGN)"),
"C07-5": ("C07", "two DISTINCT float64 values closer than a relative 1e-12 compare equal (tolerance): Equals no longer exact, not transitive"),
"C08-5": ("C08", "a nested container that is EMPTY when Clone is called is shared between clone and source ('nothing to copy')"),
"C09-5": ("C09", "Object.Clear also empties the nested containers it holds: reaches the other results that share them by reference"),
"C10-5": ("C10", "index segments in a non-canonical spelling (0x1, 0b11, 08, 010): GetTF parses with Atoi, TypeOfTF with base-0 ParseInt - the two readers disagree"),
"C11-5": ("C11", "a tree that holds a key containing a separator (\"a.b\") next to the path a -> b: SetTF's 'present field' fast path writes the sibling \"a.b\""),
"C12-5": ("C12", "NaN, +Inf, -Inf (float64 or float32) through any entry point: stored as nil instead of float"),
"C13-5": ("C13", "a float32 leaf that is not a short decimal as float64 (0.1f, 3.14f, 1/3): 'prettified' when widened, the stored number differs"),
"C14-5": ("C14", "MapValues on a list holding objects/lists with a callback that looks at identity: the callback receives deep copies instead of what Get returns"),
"C15-5": ("C15", "ForEachAsync throttled to GOMAXPROCS workers by a channel semaphore: with more entries than processors and callbacks that wait for a later callback, the later one is never started (deadlock)"),
"C16-5": ("C16", "an invalid indent whose low byte is 0..10 (256..266, 512, 65536): range check truncated to uint8, no panic"),
"C17-5": ("C17", "a float list holding both -0.0 and +0.0: values counted in a map[float64]int, the first-seen zero is emitted twice (not a permutation)"),
"C18-5": ("C18", "IntMin/IntMax on a NON-EMPTY list without ints: 'list is empty' used as stand-in for 'no int present', the fold's initial value leaks out"),
"C19-5": ("C19", "two embedding levels where the inner constructor registers first: Init keeps the first derived registration, Ego/fluent methods return the intermediate value"),
"C20-5": ("C20", "an EMPTY (or trailing-comma) multi-line nested object followed by a later error: one return path does not write the local line counter back"),
"C01-6a": ("C01", "a string value or key containing the character U+FFFD itself: validity test reduced to char == RuneError (the parser rejects the serialiser's own output)"),
"C01-6b": ("C01", 'strings/keys whose bracket characters do not pair up across the document (value "a["): a textual \'balanced brackets\' pre-check rejects the serialised text'),
"C02-6a": ("C02", "a float whose shortest form has ONE significant digit and prints in exponent form (1e6, 5e-7, 5e-324): '.0' appended after the exponent (1e+06.0)"),
"C02-6b": ("C02", 'a string or key containing a correctly encoded U+FFFD: taken for an invalid byte and left out (data changed, keys may collapse)'),
"C03-6a": ("C03", 'a valid document with white space BEFORE the root bracket: trailing-data check slices the whole text with an offset relative to the root'),
"C03-6b": ("C03", "a number whose integer part is 0 followed directly by an exponent (0e0, -0E+5): leading-zero guard only allows '0.'"),
"C04-6a": ("C04", 'ParseFile on a readable file with invalid content, or on a directory: deferred Close overwrites the error, result (nil, nil)'),
"C04-6b": ("C04", 'an overlong two-byte UTF-8 form (lead byte C0/C1 + continuation) anywhere: hand-written two-byte decoder accepts it, can even act as a bracket'),
"C05-6a": ("C05", 'IndexOf of a string/int in a heterogeneous list where an element of another kind precedes the match: index taken from the typed slice'),
"C05-6b": ("C05", 'SubList whose resolved end is exactly 0 (end == -Count(), or any call on an empty list): range test <= 0 panics inside the documented domain'),
"C06-6a": ("C06", 'Pluck naming a PRESENT key twice: validation by comparing counts panics although nothing is missing'),
"C06-6b": ("C06", 'Set/NewObject with a non-string key that has a String() method (a List, an Object, time.Duration): accepted under its textual form instead of panicking'),
"C07-6a": ("C07", 'nested objects (depth >= 1) whose key counts differ, receiver side smaller: size check hoisted into the public Equals only (asymmetric)'),
"C07-6b": ("C07", 'receiver tree has a nested list where the other has a non-list or nothing: unchecked type assertion panics instead of returning false'),
"C08-6a": ("C08", "Clone of a heterogeneous list (container next to a plain value, or object next to list): 'plain list' fast path guarded by !AllObjects && !AllLists shares the containers"),
"C08-6b": ("C08", 'Clone of an object with >= 2 fields of which one is a container not visited last: deferred closures capture the loop variables (go 1.18 semantics), other containers stay shared (map-order dependent)'),
"C09-6a": ("C09", "o.Merge(o): identity shortcut returns the receiver itself as the 'new' object"),
"C09-6b": ("C09", "SubList of a proper tail of a list that is exactly full (len == cap): the result is a view into the receiver's array; Replace/Reverse/Delete on either side show in the other"),
"C10-6a": ("C10", "a doubled '.' sigil (..n, .a..b): TrimLeft strips every leading dot, a path with an empty segment resolves"),
"C10-6b": ("C10", "a FAILING GetTF through '.key#i' where key is missing or not a list: the shared helper is called with create=true and stores an empty list (the read modifies the tree)"),
"C11-6a": ("C11", "object UnsetTF with a remaining path that mixes '.' and '#' (.a.b#1, .l#0.k): branch test turned round, removes nothing or panics"),
"C11-6b": ("C11", "list SetTF '#i.key' with i > Count() on a NON-empty list: padding loop starts at count, too few nils, the new object lands too early"),
"C12-6a": ("C12", "List.GetFloat on an element of kind int: shared 'numeric' helper widens instead of panicking"),
"C12-6b": ("C12", 'a typed nil (nil *int / func / chan of unsupported type: accepted as nil; nil []string / map[string]any: stored as nil instead of an empty container)'),
"C13-6a": ("C13", 'an empty list anywhere in the exported tree: nil slice instead of an empty non-nil slice (not deep-equal; marshals as null)'),
"C13-6b": ("C13", "Slice() of a list holding nil elements: generic helper's x.(any) assertion drops them, the snapshot is shorter"),
"C14-6a": ("C14", 'ReduceInts/ReduceFloats with a callback that treats accumulator and element differently: arguments swapped'),
"C14-6b": ("C14", 'FilterStrings/Ints/Floats on a mixed list with a predicate whose calls are observed: predicate invoked for every element (zero value for other kinds)'),
"C15-6a": ("C15", "Concat on a shared receiver with spare capacity: single append writes the argument into the receiver's backing array (concurrent Concat calls race and see each other's tails)"),
"C15-6b": ("C15", 'two overlapping ForEachAsync calls on the SAME list (other goroutine, or from a callback): WaitGroup kept in the list itself - deadlock / WaitGroup misuse panic'),
"C16-6a": ("C16", 'an object KEY with a control character / DEL / non-printable rune: FormatString quotes keys with strconv.Quote (Go escapes, invalid JSON)'),
"C16-6b": ("C16", "a whole float >= 1e6 anywhere: '.0' appended to the exponent form, String() invalid, FormatString returns the empty string"),
"C17-6a": ("C17", 'a string list with upper- and lower-case letters: Sort compares case-folded strings (not bytewise, input-order dependent)'),
"C17-6b": ("C17", 'Sort on a list whose FIRST element is a nested list: kind guard off by one on the Type enum, no panic, non-float elements dropped'),
"C18-6a": ("C18", "IntProd on a list holding the int 0: bare return in a 'zero decides' shortcut hands back the product of the prefix"),
"C18-6b": ("C18", 'Max on a list whose elements are ALL below -MaxFloat32: fold starts at -MaxFloat32 instead of -MaxFloat64'),
"C19-6a": ("C19", 'storing an INNER embedding level or the embedded container of a registered derived value: parseVal re-registers what it stores, the outer registration is overwritten'),
"C19-6b": ("C19", 'NewListOf(derived, n >= 2): positions 1.. receive deep copies (plain containers) instead of the stored outer value'),
"C20-6a": ("C20", 'an invalid literal with a newline between it and its terminating delimiter: the line where the literal STARTS is cited'),
"C20-6b": ("C20", 'input that starts with white space containing newlines: TrimSpace at the entry points before the start line is computed'),
}
rows = []
base = '/verif/seeded'
for d in sorted(os.listdir(base)):
    p = f'{base}/{d}/meta.json'
    if not os.path.exists(p):
        continue
    m = json.load(open(p))
    prop, need = N.get(d, (d.split('-')[0], m.get('needs_to_manifest', '')))
    m['breaks_property'], m['needs_to_manifest'] = prop, need
    m['round'] = 6 if d[-3:] in ('-6a','-6b') else 5 if d.endswith('-5') else 4 if d.endswith('-4') else 3 if d.endswith('-3') else 2 if d.endswith('-2') else 1
    if d == "C06-merge-empty-receiver":
        m['classification'] = 'first read as outside the statement, reading tightened in round 5; detected since'
    json.dump(m, open(p, 'w'), indent=1)
    c = m['confirmed']
    rows.append(f"| {d} | {prop} | {need} | {'yes' if all(c.values()) else c} | {', '.join(m['detected_by']) or '—'} |")
head = open(f'{base}/README.md').read().split('| id | property |')[0]
tail = """
First confrontation (before any strengthening): round 1 - 13 of 20 detected at once, 7 missed; round 2 - 7 of 20
detected at once, 13 missed (most of them history-dependent); round 3 - 12 of 20 detected at once, 8 missed
(size thresholds, byte classes, parser-made containers, argument mutation, integer overflow in a path index, keys ending in
white space, concurrent Equals with an equal-length unequal operand); round 4 - 14 of 20 detected at once, 6 missed
(state after a rejected call, nil inside typed container slices, re-entrant async callbacks, nesting depth x indent, ints that
collapse as float64, an entry point that rewrites its input); round 5 - 12 of 20 detected at once, 8 missed
(long decimal mantissas, identity of the argument's containers in Merge, disagreement of the two tree-form readers on odd index
spellings, keys containing a separator, non-finite floats, float32 leaves that are not short decimals, callbacks that wait
for each other, indents far outside the range); round 6 (two per property) - 32 of 40 detected at once, 8 missed
(non-string keys with a String method, closures over loop variables in Clone, typed nils, nil vs empty native slices,
overlapping async calls on one container, all-huge-negative lists for Max, storing inner embedding levels, NewListOf
with a derived value). What was strengthened for each miss is described in
DESIGN.md section 9. `tools/seed_all.sh` re-verifies every entry against the check of its property.
"""
open(f'{base}/README.md', 'w').write(head + "| id | property | needs to manifest | compiles, tests pass, demo fails with / passes without | detected by (quick tier) |\n|---|---|---|---|---|\n" + "\n".join(rows) + "\n" + tail)
print(len(rows), "entries")
