#!/usr/bin/env python3
"""Regenerates /verif/MANIFEST.json from the table below (kept in one place so the manifest stays valid)."""
import json, os
HERE = os.path.dirname(os.path.dirname(os.path.abspath(__file__)))
ENUM = "bounded-exhaustive input enumeration (small-scope model checking: every input of the stated finite space is executed on the real code and compared with an independent oracle)"
BFS = "explicit-state breadth-first search over operation sequences on the real code with a reference heap model, states deduplicated by a canonical key of model content plus private len/cap/aliasing shape"
SCHED = "stateless model checking: depth-first enumeration of all goroutine interleavings of the real code under a cooperative scheduler injected with go build -overlay (sync and go statements rerouted), plus a supplementary free-running -race pass"
NOTE = "Trusts the Go toolchain, the harness's own oracle/reference model and (where used) encoding/json and math/big as independent readers. Nothing outside the stated alphabets and bounds is covered."
C = {
 "C01": ("exploration", ENUM, "Every tree of <=5 (6) nodes plus every float of a 33k-point float64 grid, every boundary int, every 1-char string of all 1 112 064 Unicode scalar values and every <=2 (3)-symbol string over 34 escape classes, in 4 syntactic contexts: build, String(), Parse*, kind-strict walk, Equals both ways, second generation. Complete over the stated finite space.", "4.C01"),
 "C02": ("exploration", ENUM, "Same document space as C01; String() must be accepted by a strict RFC 8259 recogniser written for the harness and decode with encoding/json (UseNumber) to the specification tree (big.Int / big.Rat number oracle, bytewise strings).", "4.C02"),
 "C03": ("exploration", ENUM, "All derivations of the JSON grammar up to a size, generated from a specification plus spelling choices so the expected result is known by construction: structure incl. duplicate keys, whitespace layouts over every gap, every code point raw and as \\\\uXXXX, surrogate pairs, short escapes, token strings in sequences, number spellings; each text is first validated by two independent readers (generator self-check).", "4.C03"),
 "C04": ("exploration", ENUM, "Every string of <=5 (6) tokens over a 27-token byte alphabet to both parsers (also behind 5 openers), nesting sweeps, every proper prefix of every serialised document, every ill-formed UTF-8 group at every offset, ParseFile vs ParseObject on files plus the unreadable-path menu: no panic, exclusive result, deterministic, truncations and bad UTF-8 rejected.", "4.C04"),
 "C16": ("exploration", ENUM, "C01's document space x 17 indents (per-code-point documents x 5 indents): non-empty valid JSON, decodes to the specification and to what String() denotes, byte-identical to the harness's canonical re-indenter, panics outside 0..10, container unchanged.", "4.C16"),
 "C17": ("exploration", ENUM, "Every homogeneous int/float/string list up to length 5 (6) over boundary alphabets through 6 construction histories and 3 alias routes against an order/multiset/identity oracle; every list over the 13-value kinds alphabet for Reverse; every list with an unsortable first element for the panic clause.", "4.C17"),
 "C20": ("exploration", ENUM, "Every single-error injection (6 kinds) at every applicable token of every skeleton tree, under every subset of token gaps receiving a newline (all 2^g layouts up to g=11 (14)), 4 prefixes before the root, raw LF inside a preceding string, through ParseList/ParseObject/ParseFile; cited line must equal 1 + LFs before the detection byte.", "4.C20"),
}
props = [json.loads(l)["id"] for l in open(os.path.join(HERE, "properties.jsonl"))]
pending = {}
m = {"version": 1, "setup_cmd": "./setup.sh",
 "hooks": {"guard": "verif", "enable": "no in-tree hooks: instrumented builds are produced at check time with `go build -overlay` (rewritten copies of the package files and an injected scheduler package, see DESIGN.md section 2); the repository itself carries no instrumentation", "baseline_off_cmd": "cd /repo && GOFLAGS=-mod=mod go test -json -vet=off -count=1 -timeout 25m ./...", "source_commits": [], "add_only": True},
 "engines": [{"name": "vcheck", "path": "engine", "serves_properties": sorted(C), "kind_free_text": "hand-written Go explorers executed on the real code: bounded-exhaustive input enumeration, explicit-state BFS over operation sequences with a reference heap model, cooperative-scheduler DFS over goroutine interleavings"}],
 "checks": [], "not_applicable": [],
 "notes": "Every check rebuilds the harness against the current working tree of /repo (./run). Known findings: known_findings.txt. Deliberate property-breaking changes used for the detection demo: mutants/ (own) and seeded/ (independent sub-agents)."}
for pid in props:
    if pid in C:
        cat, tech, text, ref = C[pid]
        m["checks"].append({"property_id": pid, "quick_cmd": f"./run {pid} quick", "thorough_cmd": f"./run {pid} thorough", "evidence_file": f"/verif/evidence/{pid}.json", "replay_cmd_template": "cat {path}", "engine": "vcheck", "level_claimed": {"category": cat, "text": text, "design_ref": ref}, "level_note": NOTE, "technique": tech})
    else:
        m["not_applicable"].append({"property_id": pid, "reason": pending.get(pid, "check not built yet in this round (planned: DESIGN.md section 4); not a statement that model checking cannot apply")})
json.dump(m, open(os.path.join(HERE, "MANIFEST.json"), "w"), indent=1)
print("checks:", len(m["checks"]), "not_applicable:", len(m["not_applicable"]))
