#!/bin/bash
# tools/seed_verify.sh <ID> <worktree> [check ids...] : confirm an independently written property-breaking change
# (compiles, existing tests pass, its demonstration fails with the change and passes without) and run our
# checks against it; results are stored under /verif/seeded/<ID>/.
set -u
ID="$1"; WT="$2"; shift 2; CHECKS="${*:-$ID}"
HERE=/verif; OUT=$HERE/seeded/$ID; mkdir -p "$OUT"
export GOFLAGS=-mod=mod GOPROXY=off GOSUMDB=off GOTOOLCHAIN=local GOCACHE=/verif/.cache/go-build
S=$(mktemp -d /tmp/seedv.XXXXXX); trap 'rm -rf "$S"' EXIT
DEMO=""
if [ "$WT" != "-" ]; then   # "-" = re-verify from the files already stored under seeded/<ID>/
git -C "$WT" diff -- '*.go' ':!seed_demo_test.go' ':!seed_demo' > "$OUT/patch.diff"
if [ -f "$WT/seed_demo_test.go" ]; then cp "$WT/seed_demo_test.go" "$OUT/"; fi
if [ -d "$WT/seed_demo" ]; then rm -rf "$OUT/seed_demo"; cp -r "$WT/seed_demo" "$OUT/"; fi
[ -f "$WT/SEED_NOTES.md" ] && cp "$WT/SEED_NOTES.md" "$OUT/"
fi
[ -s "$OUT/patch.diff" ] || { echo "no library change for $ID"; exit 2; }
[ -f "$OUT/seed_demo_test.go" ] && DEMO=seed_demo_test.go
[ -d "$OUT/seed_demo" ] && DEMO=seed_demo
# scratch copies: base (HEAD of /repo) and mutated (base + patch)
mkdir -p "$S/base" "$S/mut"
git -C /repo archive HEAD | tar -x -C "$S/base"; git -C /repo archive HEAD | tar -x -C "$S/mut"
( cd "$S/mut" && patch -p1 -s < "$OUT/patch.diff" ) || { echo "patch does not apply to /repo HEAD"; exit 2; }
R_BUILD=fail; R_TESTS=fail; R_DEMO_MUT=unknown; R_DEMO_BASE=unknown
( cd "$S/mut" && go build ./... ) && R_BUILD=ok
( cd "$S/mut" && go test -count=1 ./... >"$S/t.log" 2>&1 ) && R_TESTS=pass
rundemo() { # dir
  if [ "$DEMO" = seed_demo_test.go ]; then cp "$OUT/seed_demo_test.go" "$1/"; ( cd "$1" && go test -count=1 -run 'Seed|Demo' ./... >"$S/d.log" 2>&1 ); rc=$?; rm -f "$1/seed_demo_test.go"; return $rc
  elif [ "$DEMO" = seed_demo ]; then cp -r "$OUT/seed_demo" "$1/"; ( cd "$1" && go run ./seed_demo >"$S/d.log" 2>&1 ); rc=$?; rm -rf "$1/seed_demo"; return $rc; fi
  return 99; }
if rundemo "$S/mut"; then R_DEMO_MUT=passes; else R_DEMO_MUT=fails; fi
if rundemo "$S/base"; then R_DEMO_BASE=passes; else R_DEMO_BASE=fails; fi
echo "build=$R_BUILD existing_tests=$R_TESTS demo_with_change=$R_DEMO_MUT demo_without_change=$R_DEMO_BASE"
DET=""
for C in $CHECKS; do
  mkdir -p "$S/root"; cp $HERE/known_findings.txt "$S/root/"
  VERIF_REPO="$S/mut" VERIF_ROOT="$S/root" VERIF_BUDGET_S=400 $HERE/run $C quick >"$S/c.log" 2>&1; rc=$?
  sigs=$(grep -a -o 'violation sig=[^ ]*' "$S/c.log" | sort -u | head -4 | tr '\n' ' ')
  if [ $rc -eq 1 ] && grep -a -q "^VIOLATION property=$C " "$S/c.log"; then echo "check $C: DETECTED $sigs"; DET="$DET $C"; grep -a -A1 "violation sig" "$S/c.log" | head -4 > "$OUT/detected_by_$C.txt"
  else echo "check $C: not detected (exit $rc)"; tail -3 "$S/c.log"; fi
done
python3 - "$ID" "$R_BUILD" "$R_TESTS" "$R_DEMO_MUT" "$R_DEMO_BASE" "$DET" "$CHECKS" <<'PY'
import json,sys,os
id,b,t,dm,db,det,checks=sys.argv[1:8]
p=f"/verif/seeded/{id}/meta.json"
old=json.load(open(p)) if os.path.exists(p) else {}
old.update({"id":id,"breaks_property":old.get("breaks_property",id.split('-')[0]),"source":"independent sub-agent given only the property text and a scratch worktree",
 "confirmed":{"compiles":b=="ok","existing_tests_pass":t=="pass","demo_fails_with_change":dm=="fails","demo_passes_without_change":db=="passes"},
 "checks_run":checks.split(),"detected_by":det.split(),
 "what_we_ran":"tools/seed_verify.sh: scratch copies of /repo HEAD (base, base+patch); go build; go test ./... ; demonstration on both; ./run <check> quick with VERIF_REPO=<base+patch>"})
json.dump(old,open(p,"w"),indent=1)
PY
