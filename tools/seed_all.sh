#!/bin/bash
# re-verify every stored seeded change against the check of the property it breaks
cd /verif
for d in seeded/*/; do id=$(basename $d); [ -f $d/patch.diff ] || continue; prop=${id%%-*}; echo "== $id"; tools/seed_verify.sh $id - $prop 2>&1 | tail -2 | cut -c1-200; done
