#!/bin/bash
# tools/refac_verify.sh <ID> <worktree|-> [check ids...] : run the quick tier of every check against a
# property-PRESERVING refactoring written by an independent sub-agent. Any VIOLATION / non-zero exit is a
# false alarm of ours (or a property the refactoring broke after all - to be classified by hand).
set -u
ID="$1"; WT="$2"; shift 2
CHECKS="${*:-C01 C02 C03 C04 C05 C06 C07 C08 C09 C10 C11 C12 C13 C14 C15 C16 C17 C18 C19 C20}"
HERE=/verif; OUT=$HERE/refactors/$ID; mkdir -p "$OUT"
export GOFLAGS=-mod=mod GOPROXY=off GOSUMDB=off GOTOOLCHAIN=local GOCACHE=/verif/.cache/go-build
S=$(mktemp -d /tmp/refv.XXXXXX); trap 'rm -rf "$S"' EXIT
if [ "$WT" != "-" ]; then
  git -C "$WT" add -N -- '*.go' 2>/dev/null; git -C "$WT" diff -- '*.go' ':!refac_check_test.go' ':!*_test.go' > "$OUT/patch.diff"
  [ -f "$WT/REFAC_NOTES.md" ] && cp "$WT/REFAC_NOTES.md" "$OUT/"
  [ -f "$WT/refac_check_test.go" ] && cp "$WT/refac_check_test.go" "$OUT/"
fi
[ -s "$OUT/patch.diff" ] || { echo "no library change for $ID"; exit 2; }
mkdir -p "$S/mut"; git -C /repo archive HEAD | tar -x -C "$S/mut"
( cd "$S/mut" && patch -p1 -s < "$OUT/patch.diff" ) || { echo "patch does not apply"; exit 2; }
R_BUILD=fail; R_TESTS=fail
( cd "$S/mut" && go build ./... ) && R_BUILD=ok
( cd "$S/mut" && go test -count=1 ./... >"$S/t.log" 2>&1 ) && R_TESTS=pass
echo "build=$R_BUILD existing_tests=$R_TESTS lines_changed=$(grep -c '^[+-][^+-]' "$OUT/patch.diff")"
: > "$OUT/results.txt"
for C in $CHECKS; do
  mkdir -p "$S/root"; cp $HERE/known_findings.txt "$S/root/"
  VERIF_REPO="$S/mut" VERIF_ROOT="$S/root" VERIF_BUDGET_S=600 $HERE/run $C quick >"$S/c.log" 2>&1; rc=$?
  if [ $rc -eq 0 ]; then echo "$C ok" | tee -a "$OUT/results.txt"
  else echo "$C ALARM exit=$rc" | tee -a "$OUT/results.txt"; cp "$S/c.log" "$OUT/$C.alarm.log"; tail -3 "$S/c.log" | cut -c1-400 | tee -a "$OUT/results.txt"; grep -a -A2 "violation sig\|HARNESS\|fatal error\|panic:" "$S/c.log" | head -12 | cut -c1-600 | tee -a "$OUT/results.txt"; fi
done
