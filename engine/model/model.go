// Package model is the reference heap model of the explicit-state searches: lists are Go
// slices, objects are Go maps, scalars are held by value and containers by pointer
// (reference semantics for free). A World pairs every model container with the real
// anytype handle it stands for and can (a) observe every live real container through the
// public API and compare it with the model, (b) produce a canonical state key made of
// the model heap plus the implementation-private spine shapes.
package model

import (
	"encoding/json"
	"fmt"
	"math"
	"reflect"
	"sort"
	"strconv"
	"strings"

	at "github.com/DanielSvub/anytype"
	"verif/peek"
)

type L struct{ E []interface{} }
type O struct{ M map[string]interface{} }

func NewL(e ...interface{}) *L { return &L{E: append([]interface{}{}, e...)} }
func NewO() *O                 { return &O{M: map[string]interface{}{}} }

// World is one state: registers, the binding model->real, and probe alphabets.
type World struct {
	Regs      []interface{} // nil, *L or *O
	real      map[interface{}]interface{}
	ProbeVals []interface{} // scalar probes for Contains/IndexOf/KeyOf
	ProbeKeys []string
	UseShape  bool // include private len/cap/aliasing in the key
	OnlyString bool  // Check performs only the String() observation (used by C02's history sub-space)
	// Focus restricts Check to one observer section: "" = everything, or "string", "format", "aggregates",
	// "views", "core" (used by the property-specific history sub-spaces)
	Focus string
	hist  map[interface{}]uint32 // per container: history bits (part of the state key)
	NoString  bool   // skip the String() observation (scenarios whose values are not JSON-representable)
	Tag       string // scenario-specific marker that is part of the state key (e.g. the construction route)
}

func NewWorld(nregs int) *World {
	return &World{Regs: make([]interface{}, nregs), real: map[interface{}]interface{}{}, UseShape: true}
}

func (w *World) Bind(m, r interface{})          { w.real[m] = r }
func (w *World) Real(m interface{}) interface{} { return w.real[m] }
func (w *World) RL(m *L) at.List {
	r, _ := w.real[m].(at.List)
	return r
}
func (w *World) RO(m *O) at.Object {
	r, _ := w.real[m].(at.Object)
	return r
}

// ToReal converts a model value into the value to hand to the library.
func (w *World) ToReal(v interface{}) interface{} {
	switch x := v.(type) {
	case *L:
		return w.real[x]
	case *O:
		return w.real[x]
	}
	return v
}

// Same is model-level equality as Go's interface == on what Get returns: scalars by
// dynamic type and value, containers by identity.
func Same(a, b interface{}) bool {
	if a == nil || b == nil {
		return a == nil && b == nil
	}
	if reflect.TypeOf(a) != reflect.TypeOf(b) {
		return false
	}
	return a == b
}

func kindOf(v interface{}) at.Type {
	switch v.(type) {
	case nil:
		return at.TypeNil
	case *O:
		return at.TypeObject
	case *L:
		return at.TypeList
	case string:
		return at.TypeString
	case bool:
		return at.TypeBool
	case int:
		return at.TypeInt
	case float64:
		return at.TypeFloat
	}
	return at.TypeUndefined
}

func try(f func()) (panicked bool) {
	defer func() {
		if recover() != nil {
			panicked = true
		}
	}()
	f()
	return
}

// Show renders a model value.
func Show(v interface{}) string {
	var sb strings.Builder
	show(&sb, v, map[interface{}]bool{})
	return sb.String()
}

func show(sb *strings.Builder, v interface{}, seen map[interface{}]bool) {
	switch x := v.(type) {
	case nil:
		sb.WriteString("nil")
	case int:
		sb.WriteString(strconv.Itoa(x))
	case float64:
		sb.WriteString(strconv.FormatFloat(x, 'g', -1, 64) + "f")
	case string:
		sb.WriteString(strconv.Quote(x))
	case bool:
		sb.WriteString(strconv.FormatBool(x))
	case *L:
		if seen[x] {
			sb.WriteString("<cycle>")
			return
		}
		seen[x] = true
		sb.WriteString("[")
		for i, e := range x.E {
			if i > 0 {
				sb.WriteString(",")
			}
			show(sb, e, seen)
		}
		sb.WriteString("]")
		delete(seen, x)
	case *O:
		if seen[x] {
			sb.WriteString("<cycle>")
			return
		}
		seen[x] = true
		ks := make([]string, 0, len(x.M))
		for k := range x.M {
			ks = append(ks, k)
		}
		sort.Strings(ks)
		sb.WriteString("{")
		for i, k := range ks {
			if i > 0 {
				sb.WriteString(",")
			}
			sb.WriteString(strconv.Quote(k) + ":")
			show(sb, x.M[k], seen)
		}
		sb.WriteString("}")
		delete(seen, x)
	default:
		fmt.Fprintf(sb, "%T(%v)", v, v)
	}
}

func showReal(v interface{}) string {
	switch x := v.(type) {
	case at.List:
		return fmt.Sprintf("List@%p", x)
	case at.Object:
		return fmt.Sprintf("Object@%p", x)
	case float64:
		return strconv.FormatFloat(x, 'g', -1, 64) + "f"
	case string:
		return strconv.Quote(x)
	case nil:
		return "nil"
	}
	return fmt.Sprintf("%T(%v)", v, v)
}

// cmp compares a real observed value with a model value; unbound model containers are
// adopted (bound to the observed handle) when adopt is true.
func (w *World) cmp(rv, mv interface{}, adopt bool) bool {
	switch x := mv.(type) {
	case *L:
		h, bound := w.real[x]
		if !bound {
			if l, ok := rv.(at.List); ok && adopt && l != nil {
				w.real[x] = l
				return true
			}
			return false
		}
		return rv == h
	case *O:
		h, bound := w.real[x]
		if !bound {
			if o, ok := rv.(at.Object); ok && adopt && o != nil {
				w.real[x] = o
				return true
			}
			return false
		}
		return rv == h
	case float64:
		f, ok := rv.(float64)
		return ok && math.Float64bits(f) == math.Float64bits(x)
	}
	return Same(rv, mv)
}

// containers returns every model container reachable from the registers, in deterministic order.
func (w *World) Containers() []interface{} {
	var out []interface{}
	seen := map[interface{}]bool{}
	var visit func(v interface{})
	visit = func(v interface{}) {
		switch x := v.(type) {
		case *L:
			if x == nil || seen[x] {
				return
			}
			seen[x] = true
			out = append(out, x)
			for _, e := range x.E {
				visit(e)
			}
		case *O:
			if x == nil || seen[x] {
				return
			}
			seen[x] = true
			out = append(out, x)
			ks := make([]string, 0, len(x.M))
			for k := range x.M {
				ks = append(ks, k)
			}
			sort.Strings(ks)
			for _, k := range ks {
				visit(x.M[k])
			}
		}
	}
	for _, r := range w.Regs {
		visit(r)
	}
	return out
}

// Check observes every live container through the public API and compares with the model.
func (w *World) Check() (msg, sig string) {
	// containers may be adopted while checking parents, so iterate by index over a growing view
	conts := w.Containers()
	var probes []interface{}
	probes = append(probes, w.ProbeVals...)
	for _, c := range conts {
		probes = append(probes, c)
	}
	// the model heap is acyclic by construction; if the REAL structure contains a cycle (storage shared by
	// mistake can make a list its own element) every recursive observer would overflow the stack, so this
	// is detected first through Get/Count only
	for _, reg := range w.Regs {
		if reg != nil {
			if path := realCycle(w.real[reg]); path != "" {
				return fmt.Sprintf("the real container graph contains a cycle (%s) although the program built an acyclic structure %s", path, Show(reg)), "observe/cycle"
			}
		}
	}
	// String() of every register root must denote the model content (decoded by encoding/json). Calling
	// it after every transition also makes serialisation part of every history, so state that a
	// serialiser keeps between calls (caches, flags) is exercised.
	if !w.NoString && w.want("string") {
		for _, reg := range w.Regs {
			if reg == nil {
				continue
			}
			var text string
			r := w.real[reg]
			if try(func() {
				switch x := r.(type) {
				case at.List:
					text = x.String()
				case at.Object:
					text = x.String()
				}
			}) {
				return fmt.Sprintf("String() panicked on %s", Show(reg)), "observe/string-panic"
			}
			d := json.NewDecoder(strings.NewReader(text))
			d.UseNumber()
			var dec interface{}
			if err := d.Decode(&dec); err != nil {
				return fmt.Sprintf("String() of %s is %q: not decodable: %v", Show(reg), text, err), "observe/string-invalid"
			}
			if why := matchDecoded(dec, reg); why != "" {
				return fmt.Sprintf("String() of a container that should be %s is %q: %s", Show(reg), text, why), "observe/string-content"
			}
		}
	}
	if w.OnlyString || w.Focus == "string" {
		return "", ""
	}
	for _, c := range conts {
		switch m := c.(type) {
		case *L:
			r := w.RL(m)
			if r == nil {
				return fmt.Sprintf("model list %s has no real counterpart", Show(m)), "harness/unbound"
			}
			if w.want("core") {
				if msg, sig = w.CheckList(r, m, probes); msg != "" {
					return
				}
			}
			if msg, sig = w.extraList(r, m); msg != "" {
				return
			}
		case *O:
			r := w.RO(m)
			if r == nil {
				return fmt.Sprintf("model object %s has no real counterpart", Show(m)), "harness/unbound"
			}
			if w.want("core") {
				if msg, sig = w.CheckObject(r, m, probes); msg != "" {
					return
				}
			}
			if msg, sig = w.extraObject(r, m); msg != "" {
				return
			}
		}
	}
	return "", ""
}

// CheckList is the full observation of one list.
func (w *World) CheckList(r at.List, m *L, probes []interface{}) (msg, sig string) {
	n := len(m.E)
	var res string
	if try(func() {
		if r.Count() != n {
			res = fmt.Sprintf("Count()=%d, model %s has %d", r.Count(), Show(m), n)
		} else if r.Empty() != (n == 0) {
			res = fmt.Sprintf("Empty()=%v with model %s", r.Empty(), Show(m))
		}
	}) {
		return "Count/Empty panicked", "observe/count"
	}
	if res != "" {
		return res, "observe/count"
	}
	for i := -1; i <= n; i++ {
		var got interface{}
		pn := try(func() { got = r.Get(i) })
		inside := i >= 0 && i < n
		if pn == inside {
			return fmt.Sprintf("Get(%d) panicked=%v on a list that should be %s", i, pn, Show(m)), "observe/get-domain"
		}
		var typ at.Type
		if try(func() { typ = r.TypeOf(i) }) {
			return fmt.Sprintf("TypeOf(%d) panicked", i), "observe/typeof"
		}
		if !inside {
			if typ != at.TypeUndefined {
				return fmt.Sprintf("TypeOf(%d)=%d outside the list %s", i, typ, Show(m)), "observe/typeof"
			}
			continue
		}
		if !w.cmp(got, m.E[i], true) {
			return fmt.Sprintf("Get(%d)=%s, model %s expects %s", i, showReal(got), Show(m), Show(m.E[i])), "observe/get-value"
		}
		if typ != kindOf(m.E[i]) {
			return fmt.Sprintf("TypeOf(%d)=%d, model element is %s", i, typ, Show(m.E[i])), "observe/typeof"
		}
		getters := []func() interface{}{func() interface{} { return r.GetObject(i) }, func() interface{} { return r.GetList(i) }, func() interface{} { return r.GetString(i) },
			func() interface{} { return r.GetBool(i) }, func() interface{} { return r.GetInt(i) }, func() interface{} { return r.GetFloat(i) }}
		wantIdx := map[at.Type]int{at.TypeObject: 0, at.TypeList: 1, at.TypeString: 2, at.TypeBool: 3, at.TypeInt: 4, at.TypeFloat: 5, at.TypeNil: -1}[kindOf(m.E[i])]
		for gi, g := range getters {
			// the matching getter is always called; the five that must panic are all called for the
			// first and last element and one (rotating with index and length) for the others
			if gi != wantIdx && i != 0 && i != n-1 && gi != (i+n)%6 {
				continue
			}
			var gv interface{}
			gp := try(func() { gv = g() })
			if gp == (gi == wantIdx) {
				return fmt.Sprintf("typed getter #%d at index %d panicked=%v, element is %s", gi, i, gp, Show(m.E[i])), "observe/typed-getter"
			}
			if !gp && !w.cmp(gv, m.E[i], false) {
				return fmt.Sprintf("typed getter #%d at index %d returned %s, want %s", gi, i, showReal(gv), Show(m.E[i])), "observe/typed-getter"
			}
		}
	}
	var sl []interface{}
	if try(func() { sl = r.Slice() }) || len(sl) != n {
		return fmt.Sprintf("Slice() has %d elements, model %s", len(sl), Show(m)), "observe/slice"
	}
	for i := range sl {
		if !w.cmp(sl[i], m.E[i], false) {
			return fmt.Sprintf("Slice()[%d]=%s, model expects %s", i, showReal(sl[i]), Show(m.E[i])), "observe/slice"
		}
	}
	for _, p := range probes {
		want := -1
		for i, e := range m.E {
			if Same(e, p) {
				want = i
				break
			}
		}
		rp := w.ToReal(p)
		if rp == nil && p != nil {
			continue
		}
		var idx int
		var has bool
		if try(func() { idx, has = r.IndexOf(rp), r.Contains(rp) }) {
			return fmt.Sprintf("IndexOf/Contains(%s) panicked", Show(p)), "observe/indexof"
		}
		if idx != want || has != (want >= 0) {
			return fmt.Sprintf("IndexOf(%s)=%d Contains=%v, model %s expects %d", Show(p), idx, has, Show(m), want), "observe/indexof"
		}
	}
	return "", ""
}

// CheckObject is the full observation of one object.
func (w *World) CheckObject(r at.Object, m *O, probes []interface{}) (msg, sig string) {
	n := len(m.M)
	bad := ""
	if try(func() {
		if r.Count() != n || r.Empty() != (n == 0) {
			bad = fmt.Sprintf("Count()=%d Empty()=%v, model %s", r.Count(), r.Empty(), Show(m))
		}
	}) {
		return "Count/Empty panicked", "observe/count"
	}
	if bad != "" {
		return bad, "observe/count"
	}
	keys := map[string]bool{}
	for _, k := range w.ProbeKeys {
		keys[k] = true
	}
	for k := range m.M {
		keys[k] = true
	}
	ks := make([]string, 0, len(keys))
	for k := range keys {
		ks = append(ks, k)
	}
	sort.Strings(ks)
	for _, k := range ks {
		mv, exists := m.M[k]
		var got interface{}
		var has bool
		var typ at.Type
		if try(func() { has, typ = r.KeyExists(k), r.TypeOf(k) }) {
			return fmt.Sprintf("KeyExists/TypeOf(%q) panicked", k), "observe/key"
		}
		pn := try(func() { got = r.Get(k) })
		if has != exists || pn == exists {
			return fmt.Sprintf("key %q: KeyExists=%v Get panicked=%v, model %s", k, has, pn, Show(m)), "observe/key-domain"
		}
		if !exists {
			if typ != at.TypeUndefined {
				return fmt.Sprintf("TypeOf(%q)=%d for a missing key", k, typ), "observe/typeof"
			}
			continue
		}
		if !w.cmp(got, mv, true) {
			return fmt.Sprintf("Get(%q)=%s, model %s expects %s", k, showReal(got), Show(m), Show(mv)), "observe/get-value"
		}
		if typ != kindOf(mv) {
			return fmt.Sprintf("TypeOf(%q)=%d, model value is %s", k, typ, Show(mv)), "observe/typeof"
		}
		getters := []func() interface{}{func() interface{} { return r.GetObject(k) }, func() interface{} { return r.GetList(k) }, func() interface{} { return r.GetString(k) },
			func() interface{} { return r.GetBool(k) }, func() interface{} { return r.GetInt(k) }, func() interface{} { return r.GetFloat(k) }}
		wantIdx := map[at.Type]int{at.TypeObject: 0, at.TypeList: 1, at.TypeString: 2, at.TypeBool: 3, at.TypeInt: 4, at.TypeFloat: 5, at.TypeNil: -1}[kindOf(mv)]
		for gi, g := range getters {
			var gv interface{}
			gp := try(func() { gv = g() })
			if gp == (gi == wantIdx) {
				return fmt.Sprintf("typed getter #%d on key %q panicked=%v, value is %s", gi, k, gp, Show(mv)), "observe/typed-getter"
			}
			if !gp && !w.cmp(gv, mv, false) {
				return fmt.Sprintf("typed getter #%d on key %q returned %s", gi, k, showReal(gv)), "observe/typed-getter"
			}
		}
	}
	// Keys / Values / Dict describe the same field set
	var kl, vl at.List
	var dict map[string]interface{}
	if try(func() { kl, vl, dict = r.Keys(), r.Values(), r.Dict() }) {
		return "Keys/Values/Dict panicked", "observe/keys"
	}
	if kl.Count() != n || vl.Count() != n || len(dict) != n {
		return fmt.Sprintf("Keys()=%d Values()=%d Dict()=%d entries, model %s has %d", kl.Count(), vl.Count(), len(dict), Show(m), n), "observe/keys"
	}
	seen := map[string]bool{}
	for i := 0; i < n; i++ {
		k, ok := kl.Get(i).(string)
		if _, in := m.M[k]; !ok || !in || seen[k] {
			return fmt.Sprintf("Keys() lists %v which is not a (distinct) model key of %s", kl.Get(i), Show(m)), "observe/keys"
		}
		seen[k] = true
	}
	for k, dv := range dict {
		mv, in := m.M[k]
		if !in || !w.cmp(dv, mv, false) {
			return fmt.Sprintf("Dict()[%q]=%s, model %s", k, showReal(dv), Show(m)), "observe/dict"
		}
	}
	used := make([]bool, n)
	mvals := make([]interface{}, 0, n)
	for _, k := range sortedKeys(m.M) {
		mvals = append(mvals, m.M[k])
	}
	for i := 0; i < n; i++ {
		rv := vl.Get(i)
		found := false
		for j, mv := range mvals {
			if !used[j] && w.cmp(rv, mv, false) {
				used[j], found = true, true
				break
			}
		}
		if !found {
			return fmt.Sprintf("Values() contains %s which matches no remaining model value of %s", showReal(rv), Show(m)), "observe/values"
		}
	}
	for _, p := range probes {
		var wantKeys []string
		for k, mv := range m.M {
			if Same(mv, p) {
				wantKeys = append(wantKeys, k)
			}
		}
		rp := w.ToReal(p)
		if rp == nil && p != nil {
			continue
		}
		var has bool
		var key string
		if try(func() { has = r.Contains(rp) }) {
			return fmt.Sprintf("Contains(%s) panicked", Show(p)), "observe/contains"
		}
		kp := try(func() { key = r.KeyOf(rp) })
		if has != (len(wantKeys) > 0) || kp == (len(wantKeys) > 0) {
			return fmt.Sprintf("Contains(%s)=%v KeyOf panicked=%v, model %s holds it under %v", Show(p), has, kp, Show(m), wantKeys), "observe/contains"
		}
		if !kp {
			ok := false
			for _, k := range wantKeys {
				if k == key {
					ok = true
				}
			}
			if !ok {
				return fmt.Sprintf("KeyOf(%s)=%q, model %s holds it under %v", Show(p), key, Show(m), wantKeys), "observe/keyof"
			}
		}
	}
	return "", ""
}

func sortedKeys(m map[string]interface{}) []string {
	ks := make([]string, 0, len(m))
	for k := range m {
		ks = append(ks, k)
	}
	sort.Strings(ks)
	return ks
}

// Key is the canonical state key: model heap with first-visit ids, plus (when UseShape and
// the private layout is readable) per list len/cap and the partition of spines into shared
// backing arrays with element offsets.
func (w *World) Key() string {
	var sb strings.Builder
	sb.WriteString(w.Tag)
	ids := map[interface{}]int{}
	type span struct {
		lo, hi uintptr
		id     int
	}
	var spans []span
	boxes := map[uintptr]string{}
	var visit func(v interface{})
	visit = func(v interface{}) {
		switch x := v.(type) {
		case nil:
			sb.WriteString("n")
		case int:
			sb.WriteString("i" + strconv.Itoa(x))
		case float64:
			sb.WriteString("f" + strconv.FormatUint(math.Float64bits(x), 16))
		case string:
			sb.WriteString("s" + strconv.Quote(x))
		case bool:
			sb.WriteString("b" + strconv.FormatBool(x))
		case *L:
			if x == nil {
				sb.WriteString("-")
				return
			}
			if id, ok := ids[x]; ok {
				sb.WriteString("@" + strconv.Itoa(id))
				return
			}
			id := len(ids)
			ids[x] = id
			sb.WriteString("L" + strconv.Itoa(id))
			if h := w.Hist(x); h != 0 {
				sb.WriteString("h" + strconv.Itoa(int(h)))
			}
			if w.UseShape {
				if r := w.RL(x); r != nil {
					if sp, ok := peek.List(r); ok {
						sb.WriteString("<" + strconv.Itoa(sp.Len) + "/" + strconv.Itoa(sp.Cap))
						if sp.Cap > 0 {
							lo, hi := sp.Ptr, sp.Ptr+uintptr(sp.Cap)*16
							for _, s := range spans {
								if lo < s.hi && s.lo < hi {
									sb.WriteString("~" + strconv.Itoa(s.id) + "+" + strconv.Itoa((int(lo)-int(s.lo))/16))
								}
							}
							spans = append(spans, span{lo, hi, id})
						}
						if sp.Cap > sp.Len {
							if spare, ok := peek.Spare(r); ok {
								sb.WriteString("!" + spare)
							}
						}
						// which slots hold the identical scalar field object (within this list or in a list seen
						// earlier): NewListOf, SubList and Concat share field objects between slots / lists
						if words, ok := peek.SlotWords(r); ok {
							for i := 0; i < sp.Len && 2*i+1 < len(words); i++ {
								if i < len(x.E) && isCont(x.E[i]) {
									continue
								}
								dp := words[2*i+1]
								if dp == 0 {
									continue
								}
								if first, seen := boxes[dp]; seen {
									sb.WriteString("=" + strconv.Itoa(i) + ":" + first)
								} else {
									boxes[dp] = strconv.Itoa(id) + "." + strconv.Itoa(i)
								}
							}
						}
						sb.WriteString(">")
					}
				}
			}
			sb.WriteString("[")
			for _, e := range x.E {
				visit(e)
				sb.WriteString(",")
			}
			sb.WriteString("]")
		case *O:
			if x == nil {
				sb.WriteString("-")
				return
			}
			if id, ok := ids[x]; ok {
				sb.WriteString("@" + strconv.Itoa(id))
				return
			}
			id := len(ids)
			ids[x] = id
			sb.WriteString("O" + strconv.Itoa(id))
			if h := w.Hist(x); h != 0 {
				sb.WriteString("h" + strconv.Itoa(int(h)))
			}
			sb.WriteString("{")
			for _, k := range sortedKeys(x.M) {
				sb.WriteString(strconv.Quote(k) + ":")
				visit(x.M[k])
				sb.WriteString(",")
			}
			sb.WriteString("}")
		}
	}
	for _, r := range w.Regs {
		if r == nil {
			sb.WriteString("_|")
			continue
		}
		visit(r)
		sb.WriteString("|")
	}
	return sb.String()
}

// Describe renders the registers.
func (w *World) Describe() string {
	parts := make([]string, len(w.Regs))
	for i, r := range w.Regs {
		if r == nil {
			parts[i] = "-"
		} else {
			parts[i] = Show(r)
		}
	}
	return strings.Join(parts, " | ")
}

// Reaches reports whether container target is reachable from v (used to keep heaps acyclic).
func Reaches(v interface{}, target interface{}) bool {
	switch x := v.(type) {
	case *L:
		if interface{}(x) == target {
			return true
		}
		for _, e := range x.E {
			if Reaches(e, target) {
				return true
			}
		}
	case *O:
		if interface{}(x) == target {
			return true
		}
		for _, e := range x.M {
			if Reaches(e, target) {
				return true
			}
		}
	}
	return false
}

// ModelOf returns the model container bound to a real handle (nil if unknown).
func (w *World) ModelOf(r interface{}) interface{} {
	for m, h := range w.real {
		if h == r {
			return m
		}
	}
	return nil
}

// Adopt converts an observed real value into a model value: scalars as they are, known
// handles to their model container, unknown containers to a fresh model container built
// by reading the real one through the public API (recursively) and bound to it.
func (w *World) Adopt(rv interface{}) interface{} {
	switch x := rv.(type) {
	case at.List:
		if m := w.ModelOf(x); m != nil {
			return m
		}
		m := NewL()
		w.Bind(m, x)
		for i := 0; i < x.Count(); i++ {
			m.E = append(m.E, w.Adopt(x.Get(i)))
		}
		return m
	case at.Object:
		if m := w.ModelOf(x); m != nil {
			return m
		}
		m := NewO()
		w.Bind(m, x)
		x.ForEach(func(k string, v interface{}) { m.M[k] = w.Adopt(v) })
		return m
	}
	return rv
}

// DeepEqual is structural equality of model values (kind-strict, floats by ==).
func DeepEqual(a, b interface{}) bool {
	switch x := a.(type) {
	case *L:
		y, ok := b.(*L)
		if !ok || len(x.E) != len(y.E) {
			return false
		}
		for i := range x.E {
			if !DeepEqual(x.E[i], y.E[i]) {
				return false
			}
		}
		return true
	case *O:
		y, ok := b.(*O)
		if !ok || len(x.M) != len(y.M) {
			return false
		}
		for k, v := range x.M {
			o, in := y.M[k]
			if !in || !DeepEqual(v, o) {
				return false
			}
		}
		return true
	}
	return Same(a, b)
}

// AdoptUnbound binds every model container that has no real counterpart yet (intermediates
// the library created itself) to the real container found at the same place. It must be
// called after operations that create containers inside the library, so that replays
// (which skip the full observation) reach the same bindings.
func (w *World) AdoptUnbound() {
	seen := map[interface{}]bool{}
	var visit func(m interface{})
	visit = func(m interface{}) {
		if seen[m] {
			return
		}
		seen[m] = true
		switch x := m.(type) {
		case *L:
			r := w.RL(x)
			for i, e := range x.E {
				if isCont(e) {
					if _, bound := w.real[e]; !bound && r != nil && i < r.Count() {
						w.bindIfKind(e, r.Get(i))
					}
					visit(e)
				}
			}
		case *O:
			r := w.RO(x)
			for k, e := range x.M {
				if isCont(e) {
					if _, bound := w.real[e]; !bound && r != nil && r.KeyExists(k) {
						w.bindIfKind(e, r.Get(k))
					}
					visit(e)
				}
			}
		}
	}
	for _, r := range w.Regs {
		if r != nil {
			visit(r)
		}
	}
}

func isCont(v interface{}) bool {
	switch x := v.(type) {
	case *L:
		return x != nil
	case *O:
		return x != nil
	}
	return false
}

func (w *World) bindIfKind(m interface{}, rv interface{}) {
	switch m.(type) {
	case *L:
		if l, ok := rv.(at.List); ok && l != nil {
			w.real[m] = l
		}
	case *O:
		if o, ok := rv.(at.Object); ok && o != nil {
			w.real[m] = o
		}
	}
}


// matchDecoded compares what encoding/json (UseNumber) decoded with a model value.
func matchDecoded(dec interface{}, mv interface{}) string {
	switch x := mv.(type) {
	case nil:
		if dec != nil {
			return fmt.Sprintf("want null, text has %v", dec)
		}
	case bool:
		if b, ok := dec.(bool); !ok || b != x {
			return fmt.Sprintf("want %v, text has %v", x, dec)
		}
	case int:
		n, ok := dec.(json.Number)
		if !ok || string(n) != strconv.Itoa(x) {
			return fmt.Sprintf("want int %d, text has %v", x, dec)
		}
	case float64:
		n, ok := dec.(json.Number)
		if !ok {
			return fmt.Sprintf("want float %v, text has %v", x, dec)
		}
		f, err := strconv.ParseFloat(string(n), 64)
		if err != nil || f != x || !strings.ContainsAny(string(n), ".eE") {
			return fmt.Sprintf("want float %v, text has literal %s", x, n)
		}
	case string:
		if s, ok := dec.(string); !ok || s != x {
			return fmt.Sprintf("want string %q, text has %v", x, dec)
		}
	case *L:
		l, ok := dec.([]interface{})
		if !ok || len(l) != len(x.E) {
			return fmt.Sprintf("want a list of %d, text has %v", len(x.E), dec)
		}
		for i := range l {
			if why := matchDecoded(l[i], x.E[i]); why != "" {
				return fmt.Sprintf("#%d: %s", i, why)
			}
		}
	case *O:
		o, ok := dec.(map[string]interface{})
		if !ok || len(o) != len(x.M) {
			return fmt.Sprintf("want an object of %d keys, text has %v", len(x.M), dec)
		}
		for k, v := range x.M {
			dv, in := o[k]
			if !in {
				return fmt.Sprintf("key %q missing in the text", k)
			}
			if why := matchDecoded(dv, v); why != "" {
				return fmt.Sprintf(".%s: %s", k, why)
			}
		}
	}
	return ""
}


// Touch calls the cheap observers with potential hidden side effects (String) on every register root.
func (w *World) Touch() {
	if w.NoString {
		return
	}
	for _, reg := range w.Regs {
		if reg == nil {
			continue
		}
		r := w.real[reg]
		try(func() {
			switch x := r.(type) {
			case at.List:
				_ = x.String()
			case at.Object:
				_ = x.String()
			}
		})
	}
}


// History bits of a container: facts about its past that its content does not show but that hidden
// state (caches, flags) may depend on. They are part of the state key, so states that differ only in
// such a fact are not merged.
const (
	HObservedEver     = 1 << iota // the observers have been called on it at some point
	HObservedSinceMut             // ... and no mutation happened since
	HSortedEver
	HReversedEver
)

func (w *World) Hist(m interface{}) uint32 {
	if w.hist == nil {
		return 0
	}
	return w.hist[m]
}

// Mark sets history bits of a container.
func (w *World) Mark(m interface{}, bits uint32) {
	if w.hist == nil {
		w.hist = map[interface{}]uint32{}
	}
	w.hist[m] |= bits
}

// Mutated records that a container was modified (clears "observed since the last mutation").
func (w *World) Mutated(m interface{}) {
	if w.hist != nil {
		w.hist[m] &^= HObservedSinceMut
	}
}

// Observe calls every observer on one container (and judges what it returns, like Check does for
// that container) and records that in the container's history bits.
func (w *World) Observe(m interface{}) (msg, sig string) {
	w.Mark(m, HObservedEver|HObservedSinceMut)
	if path := realCycle(w.real[m]); path != "" {
		return fmt.Sprintf("the real container graph contains a cycle (%s)", path), "observe/cycle"
	}
	var probes []interface{}
	probes = append(probes, w.ProbeVals...)
	if !w.NoString && w.want("string") {
		var text string
		if try(func() {
			switch r := w.real[m].(type) {
			case at.List:
				text = r.String()
			case at.Object:
				text = r.String()
			}
		}) {
			return "String() panicked", "observe/string-panic"
		}
		dec, err := decodeTo(text)
		if err != nil {
			return fmt.Sprintf("String() of %s is %q: %v", Show(m), text, err), "observe/string-invalid"
		}
		if why := matchDecoded(dec, m); why != "" {
			return fmt.Sprintf("String() of a container that should be %s is %q: %s", Show(m), text, why), "observe/string-content"
		}
	}
	switch x := m.(type) {
	case *L:
		if w.want("core") {
			if msg, sig = w.CheckList(w.RL(x), x, probes); msg != "" {
				return
			}
		}
		return w.extraList(w.RL(x), x)
	case *O:
		if w.want("core") {
			if msg, sig = w.CheckObject(w.RO(x), x, probes); msg != "" {
				return
			}
		}
		return w.extraObject(w.RO(x), x)
	}
	return "", ""
}

func (w *World) want(section string) bool { return w.Focus == "" || w.Focus == section }

func decodeTo(text string) (interface{}, error) {
	d := json.NewDecoder(strings.NewReader(text))
	d.UseNumber()
	var dec interface{}
	err := d.Decode(&dec)
	return dec, err
}

// extraList: observers beyond the core ones: FormatString at two indents, aggregates, typed slices and All*.
func (w *World) extraList(r at.List, m *L) (msg, sig string) {
	if w.want("format") {
		for _, ind := range []int{2, 4} {
			var text string
			if try(func() { text = r.FormatString(ind) }) {
				return fmt.Sprintf("FormatString(%d) panicked on %s", ind, Show(m)), "observe/format-panic"
			}
			dec, err := decodeTo(text)
			if err != nil {
				return fmt.Sprintf("FormatString(%d) of %s is %q: %v", ind, Show(m), text, err), "observe/format-invalid"
			}
			if why := matchDecoded(dec, m); why != "" {
				return fmt.Sprintf("FormatString(%d) of a list that should be %s is %q: %s", ind, Show(m), text, why), "observe/format-content"
			}
		}
	}
	if w.want("aggregates") {
		numeric, exact := true, true
		sum, prod := 0.0, 1.0
		isum, iprod, imin, imax, anyInt := 0, 1, 0, 0, false
		minV, maxV := math.Inf(1), math.Inf(-1)
		for _, e := range m.E {
			switch x := e.(type) {
			case int:
				if x > 1<<20 || x < -(1<<20) {
					exact = false
				}
				sum += float64(x)
				prod *= float64(x)
				isum += x
				iprod *= x
				if !anyInt || x < imin {
					imin = x
				}
				if !anyInt || x > imax {
					imax = x
				}
				anyInt = true
				minV, maxV = math.Min(minV, float64(x)), math.Max(maxV, float64(x))
			case float64:
				sum += x
				prod *= x
				minV, maxV = math.Min(minV, x), math.Max(maxV, x)
			default:
				numeric = false
			}
		}
		var gi [4]int
		if try(func() { gi = [4]int{r.IntSum(), r.IntProd(), r.IntMin(), r.IntMax()} }) {
			return "an Int* aggregate panicked", "observe/aggregate-panic"
		}
		if gi != [4]int{isum, iprod, imin, imax} {
			return fmt.Sprintf("IntSum/IntProd/IntMin/IntMax = %v on a list that should be %s, want %v", gi, Show(m), [4]int{isum, iprod, imin, imax}), "observe/int-aggregate"
		}
		if numeric && exact {
			if len(m.E) == 0 {
				minV, maxV = 0, 0
			}
			var g [4]float64
			if try(func() { g = [4]float64{r.Sum(), r.Prod(), r.Min(), r.Max()} }) {
				return "a float aggregate panicked", "observe/aggregate-panic"
			}
			if g != [4]float64{sum, prod, minV, maxV} {
				return fmt.Sprintf("Sum/Prod/Min/Max = %v on a list that should be %s, want %v", g, Show(m), [4]float64{sum, prod, minV, maxV}), "observe/float-aggregate"
			}
			if len(m.E) > 0 {
				var avg float64
				if try(func() { avg = r.Avg() }) || avg != sum/float64(len(m.E)) {
					return fmt.Sprintf("Avg = %v on a list that should be %s, want %v", avg, Show(m), sum/float64(len(m.E))), "observe/float-aggregate"
				}
			}
		}
	}
	if w.want("views") {
		var ints []int
		var strs []string
		var lists, objs int
		for _, e := range m.E {
			switch x := e.(type) {
			case int:
				ints = append(ints, x)
			case string:
				strs = append(strs, x)
			case *L:
				lists++
			case *O:
				objs++
			}
		}
		var gi []int
		var gs []string
		var gl, gob int
		var allI, allS bool
		if try(func() {
			gi, gs, gl, gob = r.IntSlice(), r.StringSlice(), len(r.ListSlice()), len(r.ObjectSlice())
			allI, allS = r.AllInts(), r.AllStrings()
		}) {
			return "a typed view panicked", "observe/views-panic"
		}
		if fmt.Sprint(gi) != fmt.Sprint(ints) || fmt.Sprint(gs) != fmt.Sprint(strs) || gl != lists || gob != objs ||
			allI != (len(ints) == len(m.E)) || allS != (len(strs) == len(m.E)) {
			return fmt.Sprintf("typed views of a list that should be %s: IntSlice=%v StringSlice=%v ListSlice=%d ObjectSlice=%d AllInts=%v AllStrings=%v", Show(m), gi, gs, gl, gob, allI, allS), "observe/views"
		}
	}
	return "", ""
}

func (w *World) extraObject(r at.Object, m *O) (msg, sig string) {
	if w.want("format") {
		for _, ind := range []int{2, 4} {
			var text string
			if try(func() { text = r.FormatString(ind) }) {
				return fmt.Sprintf("FormatString(%d) panicked on %s", ind, Show(m)), "observe/format-panic"
			}
			dec, err := decodeTo(text)
			if err != nil {
				return fmt.Sprintf("FormatString(%d) of %s is %q: %v", ind, Show(m), text, err), "observe/format-invalid"
			}
			if why := matchDecoded(dec, m); why != "" {
				return fmt.Sprintf("FormatString(%d) of an object that should be %s is %q: %s", ind, Show(m), text, why), "observe/format-content"
			}
		}
	}
	return "", ""
}


// realCycle walks a real container with Get/Count/ForEach only and reports a cycle ("" if none).
func realCycle(root interface{}) string {
	onPath := map[interface{}]bool{}
	var walk func(v interface{}, depth int) string
	walk = func(v interface{}, depth int) string {
		switch x := v.(type) {
		case at.List:
			if x == nil {
				return ""
			}
			if onPath[x] || depth > 64 {
				return fmt.Sprintf("a list reachable at depth %d contains itself", depth)
			}
			onPath[x] = true
			defer delete(onPath, x)
			n := 0
			try(func() { n = x.Count() })
			for i := 0; i < n; i++ {
				var e interface{}
				if try(func() { e = x.Get(i) }) {
					continue
				}
				if r := walk(e, depth+1); r != "" {
					return r
				}
			}
		case at.Object:
			if x == nil {
				return ""
			}
			if onPath[x] || depth > 64 {
				return fmt.Sprintf("an object reachable at depth %d contains itself", depth)
			}
			onPath[x] = true
			defer delete(onPath, x)
			res := ""
			try(func() {
				x.ForEachValue(func(e interface{}) {
					if res == "" {
						res = walk(e, depth+1)
					}
				})
			})
			return res
		}
		return ""
	}
	return walk(root, 0)
}
