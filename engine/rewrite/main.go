// rewrite <repo-dir> <out-dir> <vsync-source-file> : produces the -overlay description that
// builds the library with its synchronisation rerouted through the cooperative scheduler:
//
//   - every non-test .go file of the package that imports "sync" or contains a go statement is
//     re-emitted with the import "sync" pointing to <module>/vsync (same type names) and every
//     `go f(a, b)` turned into `{ f0, a0, b0 := f, a, b; sync.Go(func() { f0(a0, b0) }) }`
//     (operands are still evaluated in the spawning goroutine, as the language requires);
//
//   - <repo>/vsync/vsync.go is added (virtual directory).
//
//   - channels: `chan T` becomes *sync.Chan[T]; make, send, receive (one- and two-valued), close,
//     len/cap, range over a channel and select are lowered to calls into the scheduler (chan.go), so a
//     library that coordinates its workers through channels is explored like one that uses WaitGroups.
//
// The rewrite is syntactic; go/types is consulted (best effort) only to tell a range/len/cap over a
// channel from one over a slice or map. It keeps working when the async code is edited.
package main

import (
	"bytes"
	"encoding/json"
	"fmt"
	"go/ast"
	"go/format"
	"go/importer"
	"go/parser"
	"go/token"
	"go/types"
	"os"
	"path/filepath"
	"strconv"
	"strings"
)

const vsyncPath = "github.com/DanielSvub/anytype/vsync"

func main() {
	if len(os.Args) != 4 {
		fmt.Fprintln(os.Stderr, "usage: rewrite <repo> <outdir> <vsync.go>")
		os.Exit(2)
	}
	repo, out, vs := os.Args[1], os.Args[2], os.Args[3]
	repo, _ = filepath.Abs(repo)
	os.MkdirAll(out, 0o755)
	replace := map[string]string{}
	vsFiles, _ := filepath.Glob(filepath.Join(filepath.Dir(vs), "*.go"))
	for _, v := range vsFiles {
		if !strings.HasSuffix(v, "_test.go") {
			replace[filepath.Join(repo, "vsync", filepath.Base(v))] = v
		}
	}
	files, _ := filepath.Glob(filepath.Join(repo, "*.go"))
	rewritten, goStmts, libYields, chanOps := 0, 0, 0, 0
	fineMode := os.Getenv("VERIF_FINE") != "0"
	fset := token.NewFileSet()
	var names []string
	var parsed []*ast.File
	for _, f := range files {
		if strings.HasSuffix(f, "_test.go") {
			continue
		}
		af, err := parser.ParseFile(fset, f, nil, parser.ParseComments)
		if err != nil {
			fmt.Fprintln(os.Stderr, "parse:", err)
			os.Exit(1)
		}
		names, parsed = append(names, f), append(parsed, af)
	}
	// best-effort type information (errors are ignored: whatever could be typed is used)
	info := &types.Info{Types: map[ast.Expr]types.TypeAndValue{}}
	conf := types.Config{Importer: importer.ForCompiler(fset, "source", nil), Error: func(error) {}}
	conf.Check("anytype", fset, parsed, info)
	isChan := func(e ast.Expr) bool {
		if tv, ok := info.Types[e]; ok && tv.Type != nil {
			_, ok := tv.Type.Underlying().(*types.Chan)
			return ok
		}
		return false
	}
	for fi, f := range names {
		af := parsed[fi]
		changed := false
		syncName := ""
		for _, imp := range af.Imports {
			if p, _ := strconv.Unquote(imp.Path.Value); p == "sync" {
				syncName = "sync"
				if imp.Name != nil {
					syncName = imp.Name.Name
				} else {
					imp.Name = ast.NewIdent("sync")
				}
				imp.Path.Value = strconv.Quote(vsyncPath)
				changed = true
			}
		}
		n := 0
		var visit func(list []ast.Stmt)
		rewriteGo := func(g *ast.GoStmt) ast.Stmt {
			n++
			call := g.Call
			var lhs, rhs []ast.Expr
			fn := ast.NewIdent(fmt.Sprintf("vsyncF%d", n))
			lhs, rhs = append(lhs, fn), append(rhs, call.Fun)
			var args []ast.Expr
			for i, a := range call.Args {
				id := ast.NewIdent(fmt.Sprintf("vsyncA%d_%d", n, i))
				lhs, rhs = append(lhs, id), append(rhs, a)
				args = append(args, id)
			}
			inner := &ast.CallExpr{Fun: fn, Args: args, Ellipsis: call.Ellipsis}
			name := syncName
			if name == "" {
				name = "vsyncpkg"
			}
			spawn := &ast.ExprStmt{X: &ast.CallExpr{Fun: &ast.SelectorExpr{X: ast.NewIdent(name), Sel: ast.NewIdent("Go")},
				Args: []ast.Expr{&ast.FuncLit{Type: &ast.FuncType{Params: &ast.FieldList{}}, Body: &ast.BlockStmt{List: []ast.Stmt{&ast.ExprStmt{X: inner}}}}}}}
			return &ast.BlockStmt{List: []ast.Stmt{&ast.AssignStmt{Lhs: lhs, Tok: token.DEFINE, Rhs: rhs}, spawn}}
		}
		visit = func(list []ast.Stmt) {
			for i, st := range list {
				if g, ok := st.(*ast.GoStmt); ok {
					list[i] = rewriteGo(g)
				}
			}
		}
		yields := 0
		pkgName := func() string {
			if syncName != "" {
				return syncName
			}
			return "vsyncpkg"
		}
		mkYield := func() ast.Stmt {
			yields++
			return &ast.ExprStmt{X: &ast.CallExpr{Fun: &ast.SelectorExpr{X: ast.NewIdent(pkgName()), Sel: ast.NewIdent("LibYield")}}}
		}
		nch := rewriteChannels(af, pkgName, isChan)
		if nch > 0 {
			changed = true
			chanOps += nch
		}
		if fineMode {
			ast.Inspect(af, func(nd ast.Node) bool {
				switch x := nd.(type) {
				case *ast.FuncDecl:
					if x.Body != nil {
						x.Body.List = append([]ast.Stmt{mkYield()}, x.Body.List...)
					}
				case *ast.ForStmt:
					x.Body.List = append([]ast.Stmt{mkYield()}, x.Body.List...)
				case *ast.RangeStmt:
					x.Body.List = append([]ast.Stmt{mkYield()}, x.Body.List...)
				}
				return true
			})
		}
		ast.Inspect(af, func(nd ast.Node) bool {
			switch x := nd.(type) {
			case *ast.BlockStmt:
				visit(x.List)
			case *ast.CaseClause:
				visit(x.Body)
			case *ast.CommClause:
				visit(x.Body)
			case *ast.LabeledStmt:
				if g, ok := x.Stmt.(*ast.GoStmt); ok {
					x.Stmt = rewriteGo(g)
				}
			}
			return true
		})
		if yields > 0 {
			changed = true
			libYields += yields
		}
		if n > 0 || yields > 0 || nch > 0 {
			changed = true
			goStmts += n
			if syncName == "" {
				// add the import under a private name
				imp := &ast.ImportSpec{Name: ast.NewIdent("vsyncpkg"), Path: &ast.BasicLit{Kind: token.STRING, Value: strconv.Quote(vsyncPath)}}
				af.Decls = append([]ast.Decl{&ast.GenDecl{Tok: token.IMPORT, Specs: []ast.Spec{imp}}}, af.Decls...)
			}
		}
		if !changed {
			continue
		}
		var buf bytes.Buffer
		if err := format.Node(&buf, fset, af); err != nil {
			fmt.Fprintln(os.Stderr, "format:", err)
			os.Exit(1)
		}
		dst := filepath.Join(out, filepath.Base(f))
		os.WriteFile(dst, buf.Bytes(), 0o644)
		replace[f] = dst
		rewritten++
	}
	b, _ := json.MarshalIndent(map[string]interface{}{"Replace": replace}, "", " ")
	os.WriteFile(filepath.Join(out, "overlay.json"), b, 0o644)
	fmt.Printf("rewrite: %d files rewritten, %d go statements rerouted, %d channel constructs lowered, %d LibYield points inserted (function entries, loop bodies)\n", rewritten, goStmts, chanOps, libYields)
}
