// Copied unchanged (except for the package clause) from golang.org/x/tools v0.29.0, go/ast/astutil/rewrite.go:
// Apply, a go/ast traversal with node replacement.

// Copyright 2017 The Go Authors. All rights reserved.
// Use of this source code is governed by a BSD-style
// license that can be found in the LICENSE file.

package main

import (
	"fmt"
	"go/ast"
	"reflect"
	"sort"
)

// An ApplyFunc is invoked by Apply for each node n, even if n is nil,
// before and/or after the node's children, using a Cursor describing
// the current node and providing operations on it.
//
// The return value of ApplyFunc controls the syntax tree traversal.
// See Apply for details.
type ApplyFunc func(*Cursor) bool

// Apply traverses a syntax tree recursively, starting with root,
// and calling pre and post for each node as described below.
// Apply returns the syntax tree, possibly modified.
//
// If pre is not nil, it is called for each node before the node's
// children are traversed (pre-order). If pre returns false, no
// children are traversed, and post is not called for that node.
//
// If post is not nil, and a prior call of pre didn't return false,
// post is called for each node after its children are traversed
// (post-order). If post returns false, traversal is terminated and
// Apply returns immediately.
//
// Only fields that refer to AST nodes are considered children;
// i.e., token.Pos, Scopes, Objects, and fields of basic types
// (strings, etc.) are ignored.
//
// Children are traversed in the order in which they appear in the
// respective node's struct definition. A package's files are
// traversed in the filenames' alphabetical order.
func Apply(root ast.Node, pre, post ApplyFunc) (result ast.Node) {
	parent := &struct{ ast.Node }{root}
	defer func() {
		if r := recover(); r != nil && r != abort {
			panic(r)
		}
		result = parent.Node
	}()
	a := &application{pre: pre, post: post}
	a.apply(parent, "Node", nil, root)
	return
}

var abort = new(int) // singleton, to signal termination of Apply

// A Cursor describes a node encountered during Apply.
// Information about the node and its parent is available
// from the Node, Parent, Name, and Index methods.
//
// If p is a variable of type and value of the current parent node
// c.Parent(), and f is the field identifier with name c.Name(),
// the following invariants hold:
//
//	p.f            == c.Node()  if c.Index() <  0
//	p.f[c.Index()] == c.Node()  if c.Index() >= 0
//
// The methods Replace, Delete, InsertBefore, and InsertAfter
// can be used to change the AST without disrupting Apply.
type Cursor struct {
	parent ast.Node
	name   string
	iter   *iterator // valid if non-nil
	node   ast.Node
}

// Node returns the current Node.
func (c *Cursor) Node() ast.Node { return c.node }

// Parent returns the parent of the current Node.
func (c *Cursor) Parent() ast.Node { return c.parent }

// Name returns the name of the parent Node field that contains the current Node.
// If the parent is a *ast.Package and the current Node is a *ast.File, Name returns
// the filename for the current Node.
func (c *Cursor) Name() string { return c.name }

// Index reports the index >= 0 of the current Node in the slice of Nodes that
// contains it, or a value < 0 if the current Node is not part of a slice.
// The index of the current node changes if InsertBefore is called while
// processing the current node.
func (c *Cursor) Index() int {
	if c.iter != nil {
		return c.iter.index
	}
	return -1
}

// field returns the current node's parent field value.
func (c *Cursor) field() reflect.Value {
	return reflect.Indirect(reflect.ValueOf(c.parent)).FieldByName(c.name)
}

// Replace replaces the current Node with n.
// The replacement node is not walked by Apply.
func (c *Cursor) Replace(n ast.Node) {
	if _, ok := c.node.(*ast.File); ok {
		file, ok := n.(*ast.File)
		if !ok {
			panic("attempt to replace *ast.File with non-*ast.File")
		}
		c.parent.(*ast.Package).Files[c.name] = file
		return
	}

	v := c.field()
	if i := c.Index(); i >= 0 {
		v = v.Index(i)
	}
	v.Set(reflect.ValueOf(n))
}

// Delete deletes the current Node from its containing slice.
// If the current Node is not part of a slice, Delete panics.
// As a special case, if the current node is a package file,
// Delete removes it from the package's Files map.
func (c *Cursor) Delete() {
	if _, ok := c.node.(*ast.File); ok {
		delete(c.parent.(*ast.Package).Files, c.name)
		return
	}

	i := c.Index()
	if i < 0 {
		panic("Delete node not contained in slice")
	}
	v := c.field()
	l := v.Len()
	reflect.Copy(v.Slice(i, l), v.Slice(i+1, l))
	v.Index(l - 1).Set(reflect.Zero(v.Type().Elem()))
	v.SetLen(l - 1)
	c.iter.step--
}

// InsertAfter inserts n after the current Node in its containing slice.
// If the current Node is not part of a slice, InsertAfter panics.
// Apply does not walk n.
func (c *Cursor) InsertAfter(n ast.Node) {
	i := c.Index()
	if i < 0 {
		panic("InsertAfter node not contained in slice")
	}
	v := c.field()
	v.Set(reflect.Append(v, reflect.Zero(v.Type().Elem())))
	l := v.Len()
	reflect.Copy(v.Slice(i+2, l), v.Slice(i+1, l))
	v.Index(i + 1).Set(reflect.ValueOf(n))
	c.iter.step++
}

// InsertBefore inserts n before the current Node in its containing slice.
// If the current Node is not part of a slice, InsertBefore panics.
// Apply will not walk n.
func (c *Cursor) InsertBefore(n ast.Node) {
	i := c.Index()
	if i < 0 {
		panic("InsertBefore node not contained in slice")
	}
	v := c.field()
	v.Set(reflect.Append(v, reflect.Zero(v.Type().Elem())))
	l := v.Len()
	reflect.Copy(v.Slice(i+1, l), v.Slice(i, l))
	v.Index(i).Set(reflect.ValueOf(n))
	c.iter.index++
}

// application carries all the shared data so we can pass it around cheaply.
type application struct {
	pre, post ApplyFunc
	cursor    Cursor
	iter      iterator
}

func (a *application) apply(parent ast.Node, name string, iter *iterator, n ast.Node) {
	// convert typed nil into untyped nil
	if v := reflect.ValueOf(n); v.Kind() == reflect.Ptr && v.IsNil() {
		n = nil
	}

	// avoid heap-allocating a new cursor for each apply call; reuse a.cursor instead
	saved := a.cursor
	a.cursor.parent = parent
	a.cursor.name = name
	a.cursor.iter = iter
	a.cursor.node = n

	if a.pre != nil && !a.pre(&a.cursor) {
		a.cursor = saved
		return
	}

	// walk children
	// (the order of the cases matches the order of the corresponding node types in go/ast)
	switch n := n.(type) {
	case nil:
		// nothing to do

	// Comments and fields
	case *ast.Comment:
		// nothing to do

	case *ast.CommentGroup:
		if n != nil {
			a.applyList(n, "List")
		}

	case *ast.Field:
		a.apply(n, "Doc", nil, n.Doc)
		a.applyList(n, "Names")
		a.apply(n, "Type", nil, n.Type)
		a.apply(n, "Tag", nil, n.Tag)
		a.apply(n, "Comment", nil, n.Comment)

	case *ast.FieldList:
		a.applyList(n, "List")

	// Expressions
	case *ast.BadExpr, *ast.Ident, *ast.BasicLit:
		// nothing to do

	case *ast.Ellipsis:
		a.apply(n, "Elt", nil, n.Elt)

	case *ast.FuncLit:
		a.apply(n, "Type", nil, n.Type)
		a.apply(n, "Body", nil, n.Body)

	case *ast.CompositeLit:
		a.apply(n, "Type", nil, n.Type)
		a.applyList(n, "Elts")

	case *ast.ParenExpr:
		a.apply(n, "X", nil, n.X)

	case *ast.SelectorExpr:
		a.apply(n, "X", nil, n.X)
		a.apply(n, "Sel", nil, n.Sel)

	case *ast.IndexExpr:
		a.apply(n, "X", nil, n.X)
		a.apply(n, "Index", nil, n.Index)

	case *ast.IndexListExpr:
		a.apply(n, "X", nil, n.X)
		a.applyList(n, "Indices")

	case *ast.SliceExpr:
		a.apply(n, "X", nil, n.X)
		a.apply(n, "Low", nil, n.Low)
		a.apply(n, "High", nil, n.High)
		a.apply(n, "Max", nil, n.Max)

	case *ast.TypeAssertExpr:
		a.apply(n, "X", nil, n.X)
		a.apply(n, "Type", nil, n.Type)

	case *ast.CallExpr:
		a.apply(n, "Fun", nil, n.Fun)
		a.applyList(n, "Args")

	case *ast.StarExpr:
		a.apply(n, "X", nil, n.X)

	case *ast.UnaryExpr:
		a.apply(n, "X", nil, n.X)

	case *ast.BinaryExpr:
		a.apply(n, "X", nil, n.X)
		a.apply(n, "Y", nil, n.Y)

	case *ast.KeyValueExpr:
		a.apply(n, "Key", nil, n.Key)
		a.apply(n, "Value", nil, n.Value)

	// Types
	case *ast.ArrayType:
		a.apply(n, "Len", nil, n.Len)
		a.apply(n, "Elt", nil, n.Elt)

	case *ast.StructType:
		a.apply(n, "Fields", nil, n.Fields)

	case *ast.FuncType:
		if tparams := n.TypeParams; tparams != nil {
			a.apply(n, "TypeParams", nil, tparams)
		}
		a.apply(n, "Params", nil, n.Params)
		a.apply(n, "Results", nil, n.Results)

	case *ast.InterfaceType:
		a.apply(n, "Methods", nil, n.Methods)

	case *ast.MapType:
		a.apply(n, "Key", nil, n.Key)
		a.apply(n, "Value", nil, n.Value)

	case *ast.ChanType:
		a.apply(n, "Value", nil, n.Value)

	// Statements
	case *ast.BadStmt:
		// nothing to do

	case *ast.DeclStmt:
		a.apply(n, "Decl", nil, n.Decl)

	case *ast.EmptyStmt:
		// nothing to do

	case *ast.LabeledStmt:
		a.apply(n, "Label", nil, n.Label)
		a.apply(n, "Stmt", nil, n.Stmt)

	case *ast.ExprStmt:
		a.apply(n, "X", nil, n.X)

	case *ast.SendStmt:
		a.apply(n, "Chan", nil, n.Chan)
		a.apply(n, "Value", nil, n.Value)

	case *ast.IncDecStmt:
		a.apply(n, "X", nil, n.X)

	case *ast.AssignStmt:
		a.applyList(n, "Lhs")
		a.applyList(n, "Rhs")

	case *ast.GoStmt:
		a.apply(n, "Call", nil, n.Call)

	case *ast.DeferStmt:
		a.apply(n, "Call", nil, n.Call)

	case *ast.ReturnStmt:
		a.applyList(n, "Results")

	case *ast.BranchStmt:
		a.apply(n, "Label", nil, n.Label)

	case *ast.BlockStmt:
		a.applyList(n, "List")

	case *ast.IfStmt:
		a.apply(n, "Init", nil, n.Init)
		a.apply(n, "Cond", nil, n.Cond)
		a.apply(n, "Body", nil, n.Body)
		a.apply(n, "Else", nil, n.Else)

	case *ast.CaseClause:
		a.applyList(n, "List")
		a.applyList(n, "Body")

	case *ast.SwitchStmt:
		a.apply(n, "Init", nil, n.Init)
		a.apply(n, "Tag", nil, n.Tag)
		a.apply(n, "Body", nil, n.Body)

	case *ast.TypeSwitchStmt:
		a.apply(n, "Init", nil, n.Init)
		a.apply(n, "Assign", nil, n.Assign)
		a.apply(n, "Body", nil, n.Body)

	case *ast.CommClause:
		a.apply(n, "Comm", nil, n.Comm)
		a.applyList(n, "Body")

	case *ast.SelectStmt:
		a.apply(n, "Body", nil, n.Body)

	case *ast.ForStmt:
		a.apply(n, "Init", nil, n.Init)
		a.apply(n, "Cond", nil, n.Cond)
		a.apply(n, "Post", nil, n.Post)
		a.apply(n, "Body", nil, n.Body)

	case *ast.RangeStmt:
		a.apply(n, "Key", nil, n.Key)
		a.apply(n, "Value", nil, n.Value)
		a.apply(n, "X", nil, n.X)
		a.apply(n, "Body", nil, n.Body)

	// Declarations
	case *ast.ImportSpec:
		a.apply(n, "Doc", nil, n.Doc)
		a.apply(n, "Name", nil, n.Name)
		a.apply(n, "Path", nil, n.Path)
		a.apply(n, "Comment", nil, n.Comment)

	case *ast.ValueSpec:
		a.apply(n, "Doc", nil, n.Doc)
		a.applyList(n, "Names")
		a.apply(n, "Type", nil, n.Type)
		a.applyList(n, "Values")
		a.apply(n, "Comment", nil, n.Comment)

	case *ast.TypeSpec:
		a.apply(n, "Doc", nil, n.Doc)
		a.apply(n, "Name", nil, n.Name)
		if tparams := n.TypeParams; tparams != nil {
			a.apply(n, "TypeParams", nil, tparams)
		}
		a.apply(n, "Type", nil, n.Type)
		a.apply(n, "Comment", nil, n.Comment)

	case *ast.BadDecl:
		// nothing to do

	case *ast.GenDecl:
		a.apply(n, "Doc", nil, n.Doc)
		a.applyList(n, "Specs")

	case *ast.FuncDecl:
		a.apply(n, "Doc", nil, n.Doc)
		a.apply(n, "Recv", nil, n.Recv)
		a.apply(n, "Name", nil, n.Name)
		a.apply(n, "Type", nil, n.Type)
		a.apply(n, "Body", nil, n.Body)

	// Files and packages
	case *ast.File:
		a.apply(n, "Doc", nil, n.Doc)
		a.apply(n, "Name", nil, n.Name)
		a.applyList(n, "Decls")
		// Don't walk n.Comments; they have either been walked already if
		// they are Doc comments, or they can be easily walked explicitly.

	case *ast.Package:
		// collect and sort names for reproducible behavior
		var names []string
		for name := range n.Files {
			names = append(names, name)
		}
		sort.Strings(names)
		for _, name := range names {
			a.apply(n, name, nil, n.Files[name])
		}

	default:
		panic(fmt.Sprintf("Apply: unexpected node type %T", n))
	}

	if a.post != nil && !a.post(&a.cursor) {
		panic(abort)
	}

	a.cursor = saved
}

// An iterator controls iteration over a slice of nodes.
type iterator struct {
	index, step int
}

func (a *application) applyList(parent ast.Node, name string) {
	// avoid heap-allocating a new iterator for each applyList call; reuse a.iter instead
	saved := a.iter
	a.iter.index = 0
	for {
		// must reload parent.name each time, since cursor modifications might change it
		v := reflect.Indirect(reflect.ValueOf(parent)).FieldByName(name)
		if a.iter.index >= v.Len() {
			break
		}

		// element x may be nil in a bad AST - be cautious
		var x ast.Node
		if e := v.Index(a.iter.index); e.IsValid() {
			x = e.Interface().(ast.Node)
		}

		a.iter.step = 1
		a.apply(parent, name, &a.iter, x)
		a.iter.index += a.iter.step
	}
	a.iter = saved
}
