package main

import (
	"fmt"
	"go/ast"
	"go/token"
)

// rewriteChannels lowers every channel construct of the file to calls into the scheduler package and
// returns the number of constructs rewritten.
func rewriteChannels(af *ast.File, pkgName func() string, isChan func(ast.Expr) bool) int {
	n := 0
	sel := func(name string) ast.Expr {
		return &ast.SelectorExpr{X: ast.NewIdent(pkgName()), Sel: ast.NewIdent(name)}
	}
	method := func(recv ast.Expr, name string, args ...ast.Expr) *ast.CallExpr {
		return &ast.CallExpr{Fun: &ast.SelectorExpr{X: recv, Sel: ast.NewIdent(name)}, Args: args}
	}
	// facts that need the original nodes (type information is keyed by them)
	chanRange := map[*ast.RangeStmt]bool{}
	chanLenCap := map[*ast.CallExpr]bool{}
	ast.Inspect(af, func(nd ast.Node) bool {
		switch x := nd.(type) {
		case *ast.RangeStmt:
			if isChan(x.X) {
				chanRange[x] = true
			}
		case *ast.CallExpr:
			if id, ok := x.Fun.(*ast.Ident); ok && (id.Name == "len" || id.Name == "cap") && len(x.Args) == 1 && isChan(x.Args[0]) {
				chanLenCap[x] = true
			}
		}
		return true
	})
	imported := map[string]bool{}
	for _, imp := range af.Imports {
		name := ""
		if imp.Name != nil {
			name = imp.Name.Name
		} else {
			p := imp.Path.Value[1 : len(imp.Path.Value)-1]
			for i := len(p) - 1; i >= 0; i-- {
				if p[i] == '/' {
					p = p[i+1:]
					break
				}
			}
			name = p
		}
		imported[name] = true
	}
	// foreign: the operand is the result of calling a function of another package (pkg.F(...) or pkg.F(...).M())
	var foreign func(e ast.Expr) bool
	foreign = func(e ast.Expr) bool {
		call, ok := unparen(e).(*ast.CallExpr)
		if !ok {
			return false
		}
		fn, ok := call.Fun.(*ast.SelectorExpr)
		if !ok {
			return false
		}
		if id, ok := fn.X.(*ast.Ident); ok && imported[id.Name] && id.Name != pkgName() {
			return true
		}
		return foreign(fn.X)
	}
	chanTypes := map[*ast.StarExpr]ast.Expr{} // our *pkg.Chan[T] nodes -> T
	recvCalls := map[*ast.CallExpr]bool{}
	sendCalls := map[*ast.CallExpr]bool{}
	selects := 0
	post := func(c *Cursor) bool {
		switch x := c.Node().(type) {
		case *ast.ChanType:
			n++
			st := &ast.StarExpr{X: &ast.IndexExpr{X: sel("Chan"), Index: x.Value}}
			chanTypes[st] = x.Value
			c.Replace(st)
		case *ast.CallExpr:
			id, ok := x.Fun.(*ast.Ident)
			if !ok {
				break
			}
			switch {
			case id.Name == "make" && len(x.Args) >= 1:
				if st, ok := x.Args[0].(*ast.StarExpr); ok {
					if elem, ours := chanTypes[st]; ours {
						n++
						c.Replace(&ast.CallExpr{Fun: &ast.IndexExpr{X: sel("NewChan"), Index: elem}, Args: x.Args[1:]})
					}
				}
			case id.Name == "close" && len(x.Args) == 1:
				n++
				c.Replace(method(x.Args[0], "Close"))
			case chanLenCap[x]:
				n++
				name := "Len"
				if id.Name == "cap" {
					name = "Cap"
				}
				c.Replace(method(x.Args[0], name))
			}
		case *ast.UnaryExpr:
			if x.Op == token.ARROW {
				if foreign(x.X) {
					break // a channel handed out by another package (time.After, ctx.Done): stays a real channel
				}
				n++
				call := method(x.X, "Recv")
				recvCalls[call] = true
				c.Replace(call)
			}
		case *ast.SendStmt:
			n++
			call := method(x.Chan, "Send", x.Value)
			sendCalls[call] = true
			c.Replace(&ast.ExprStmt{X: call})
		case *ast.AssignStmt:
			if len(x.Lhs) == 2 && len(x.Rhs) == 1 {
				if call, ok := unparen(x.Rhs[0]).(*ast.CallExpr); ok && recvCalls[call] {
					call.Fun.(*ast.SelectorExpr).Sel = ast.NewIdent("Recv2")
				}
			}
		case *ast.ValueSpec:
			if len(x.Names) == 2 && len(x.Values) == 1 {
				if call, ok := unparen(x.Values[0]).(*ast.CallExpr); ok && recvCalls[call] {
					call.Fun.(*ast.SelectorExpr).Sel = ast.NewIdent("Recv2")
				}
			}
		case *ast.RangeStmt:
			if !chanRange[x] {
				break
			}
			n++
			okName := ast.NewIdent("vsyncOk")
			var head []ast.Stmt
			key := x.Key
			if key == nil {
				key = ast.NewIdent("_")
			}
			recv := method(x.X, "Recv2")
			if x.Tok == token.ASSIGN {
				head = append(head, &ast.DeclStmt{Decl: &ast.GenDecl{Tok: token.VAR, Specs: []ast.Spec{&ast.ValueSpec{Names: []*ast.Ident{okName}, Type: ast.NewIdent("bool")}}}},
					&ast.AssignStmt{Lhs: []ast.Expr{key, okName}, Tok: token.ASSIGN, Rhs: []ast.Expr{recv}})
			} else {
				head = append(head, &ast.AssignStmt{Lhs: []ast.Expr{key, okName}, Tok: token.DEFINE, Rhs: []ast.Expr{recv}})
			}
			head = append(head, &ast.IfStmt{Cond: &ast.UnaryExpr{Op: token.NOT, X: okName}, Body: &ast.BlockStmt{List: []ast.Stmt{&ast.BranchStmt{Tok: token.BREAK}}}})
			c.Replace(&ast.ForStmt{Body: &ast.BlockStmt{List: append(head, x.Body.List...)}})
		case *ast.SelectStmt:
			n++
			selects++
			var pre []ast.Stmt
			var caseArgs []ast.Expr
			var clauses []ast.Stmt
			hasDefault := false
			k := 0
			for _, cl := range x.Body.List {
				cc := cl.(*ast.CommClause)
				if cc.Comm == nil {
					hasDefault = true
					clauses = append(clauses, &ast.CaseClause{Body: cc.Body})
					continue
				}
				name := ast.NewIdent(fmt.Sprintf("vsyncS%dc%d", selects, k))
				var mk ast.Expr
				var bind ast.Stmt
				switch cm := cc.Comm.(type) {
				case *ast.ExprStmt:
					call := unparen(cm.X).(*ast.CallExpr)
					fn := call.Fun.(*ast.SelectorExpr)
					if sendCalls[call] {
						mk = &ast.CallExpr{Fun: sel("SendCase"), Args: []ast.Expr{fn.X, call.Args[0]}}
					} else {
						mk = &ast.CallExpr{Fun: sel("RecvCase"), Args: []ast.Expr{fn.X}}
					}
				case *ast.AssignStmt:
					call := unparen(cm.Rhs[0]).(*ast.CallExpr)
					fn := call.Fun.(*ast.SelectorExpr)
					mk = &ast.CallExpr{Fun: sel("RecvCase"), Args: []ast.Expr{fn.X}}
					get := "Value"
					if len(cm.Lhs) == 2 {
						get = "Value2"
					}
					bind = &ast.AssignStmt{Lhs: cm.Lhs, Tok: cm.Tok, Rhs: []ast.Expr{method(name, get)}}
				}
				pre = append(pre, &ast.AssignStmt{Lhs: []ast.Expr{name}, Tok: token.DEFINE, Rhs: []ast.Expr{mk}})
				caseArgs = append(caseArgs, name)
				body := cc.Body
				if bind != nil {
					body = append([]ast.Stmt{bind}, body...)
				}
				clauses = append(clauses, &ast.CaseClause{List: []ast.Expr{&ast.BasicLit{Kind: token.INT, Value: fmt.Sprint(k)}}, Body: body})
				k++
			}
			def := "false"
			if hasDefault {
				def = "true"
			}
			call := &ast.CallExpr{Fun: sel("Select"), Args: append([]ast.Expr{ast.NewIdent(def)}, caseArgs...)}
			c.Replace(&ast.BlockStmt{List: append(pre, &ast.SwitchStmt{Tag: call, Body: &ast.BlockStmt{List: clauses}})})
		}
		return true
	}
	Apply(af, nil, post)
	return n
}

func unparen(e ast.Expr) ast.Expr {
	for {
		p, ok := e.(*ast.ParenExpr)
		if !ok {
			return e
		}
		e = p.X
	}
}
