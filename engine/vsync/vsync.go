// Package vsync is a cooperative scheduler with drop-in replacements for the parts of
// package sync the library uses (WaitGroup, Mutex, RWMutex, Once) and for the go statement.
// It is injected into the library at check time with `go build -overlay`: the import
// "sync" is re-pointed to this package and every `go f(x)` is rewritten to vsync.Go.
//
// Every logical thread is a real goroutine that runs only while it holds the baton.
// Scheduling points are Go (spawn), WaitGroup.Add/Done/Wait, Mutex.Lock/Unlock and
// Yield. Waiting is blocking, never spinning: Wait on a non-zero counter and Lock on a
// held mutex disable the thread. "No enabled thread while some are unfinished" is a
// deadlock. The explorer (Explore) enumerates all schedules depth-first with an
// iteratively increased preemption bound; a schedule is a list of choice indices into the
// canonically ordered enabled set (running thread first, then ascending ids).
package vsync

import (
	"fmt"
)

type thread struct {
	id      int
	wake    chan struct{}
	done    bool
	blocked func() bool // non-nil while blocked: returns true when the thread may proceed
	why     string
}

// Point is one scheduling decision of an execution.
type Point struct {
	Enabled        []int // thread ids in canonical order (for a data choice: -1, -2, ... one per alternative)
	Chosen         int   // index into Enabled
	RunningEnabled bool  // Enabled[0] is the thread that was running (switching away is a preemption)
	Data           bool  // not a thread switch but a choice the language leaves open (which ready select case fires)
}

// Exec is the record of one complete execution.
type Exec struct {
	Points     []Point
	Deadlock   bool
	DeadlockAt string
	Panic      interface{} // panic raised inside a thread (propagated to the explorer)
	PanicIn    int
	Diverged   string // non-empty: the prefix could not be replayed (hard harness error)
	Threads    int
}

type sched struct {
	threads []*thread
	cur     *thread
	prefix  []int
	exec    *Exec
	finish  chan struct{}
	active  bool
}

var s *sched // the scheduler of the execution in progress (process-global by design)

// Active reports whether an exploration is in progress (the shim falls back to no-ops otherwise).
func Active() bool { return s != nil && s.active }

func (sc *sched) enabledSet() (ids []int, runningEnabled bool) {
	c := sc.cur
	if c != nil && !c.done && (c.blocked == nil || c.blocked()) {
		ids = append(ids, c.id)
		runningEnabled = true
	}
	for _, t := range sc.threads {
		if t == c || t.done {
			continue
		}
		if t.blocked == nil || t.blocked() {
			ids = append(ids, t.id)
		}
	}
	return
}

// decide picks the next thread to run and transfers the baton; it returns when the calling
// thread holds the baton again (or immediately if it keeps it). Must be called by the
// thread that currently holds the baton.
func (sc *sched) decide() {
	me := sc.cur
	ids, runEn := sc.enabledSet()
	if len(ids) == 0 {
		all := true
		for _, t := range sc.threads {
			if !t.done {
				all = false
			}
		}
		if all {
			sc.active = false
			close(sc.finish)
			return
		}
		sc.exec.Deadlock = true
		desc := ""
		for _, t := range sc.threads {
			if !t.done {
				desc += fmt.Sprintf("thread %d blocked on %s; ", t.id, t.why)
			}
		}
		sc.exec.DeadlockAt = desc
		sc.active = false
		close(sc.finish)
		// the calling goroutine (and all blocked ones) stay parked forever; they are leaked on purpose
		select {}
	}
	choice := 0
	k := len(sc.exec.Points)
	if k < len(sc.prefix) {
		choice = sc.prefix[k]
		if choice >= len(ids) {
			sc.exec.Diverged = fmt.Sprintf("choice %d of decision %d is out of range (enabled %v)", choice, k, ids)
			sc.active = false
			close(sc.finish)
			select {}
		}
	}
	sc.exec.Points = append(sc.exec.Points, Point{Enabled: ids, Chosen: choice, RunningEnabled: runEn})
	next := sc.threads[ids[choice]]
	if next == me {
		return
	}
	sc.cur = next
	next.wake <- struct{}{}
	if me != nil && !me.done {
		<-me.wake
	}
}

// choose is a data-nondeterminism point with n alternatives (e.g. which of several ready select cases
// fires): recorded like a scheduling decision, so the explorer enumerates every alternative. It never
// counts as a preemption.
func choose(n int) int {
	if !Active() || n <= 1 {
		return 0
	}
	sc := s
	k := len(sc.exec.Points)
	choice := 0
	if k < len(sc.prefix) {
		choice = sc.prefix[k]
		if choice >= n {
			sc.exec.Diverged = fmt.Sprintf("choice %d of data decision %d is out of range (%d alternatives)", choice, k, n)
			sc.active = false
			close(sc.finish)
			select {}
		}
	}
	ids := make([]int, n)
	for i := range ids {
		ids[i] = -1 - i
	}
	sc.exec.Points = append(sc.exec.Points, Point{Enabled: ids, Chosen: choice, Data: true})
	return choice
}

// point is a scheduling point of the running thread.
func point() {
	if !Active() {
		return
	}
	s.decide()
}

// block parks the running thread until cond holds.
func block(cond func() bool, why string) {
	if !Active() {
		return
	}
	me := s.cur
	for !cond() {
		me.blocked, me.why = cond, why
		s.decide()
		me.blocked = nil
	}
}

// Yield is an explicit scheduling point (used by the harness inside callbacks).
func Yield() { point() }

var fine bool

// SetFine switches the fine-grained mode: when on, the LibYield calls that the overlay rewriter
// places at every function entry and loop iteration of the library become scheduling points, so
// that unsynchronised accesses to state shared between calls (package-level caches, buffers) are
// interleaved at statement-block granularity.
func SetFine(on bool) { fine = on }

// LibYield is inserted into the library by the rewriter (function entries, loop bodies).
func LibYield() {
	if fine {
		point()
	}
}

// Go starts f as a new logical thread (replacement of the go statement).
func Go(f func()) {
	if !Active() {
		go f()
		return
	}
	sc := s
	t := &thread{id: len(sc.threads), wake: make(chan struct{}, 1)}
	sc.threads = append(sc.threads, t)
	sc.exec.Threads = len(sc.threads)
	go func() {
		<-t.wake
		defer func() {
			if r := recover(); r != nil {
				sc.exec.Panic, sc.exec.PanicIn = r, t.id
			}
			t.done = true
			if sc.active {
				sc.decide()
			}
		}()
		f()
	}()
	point() // the spawner may be preempted right after the spawn
}

// GoQuiet starts f as a new logical thread without making the spawn a scheduling point. It is
// meant for harness threads that begin with a Yield: no interleaving is lost, because a spawned
// thread takes its first step only when it is scheduled.
func GoQuiet(f func()) {
	if !Active() {
		go f()
		return
	}
	sc := s
	t := &thread{id: len(sc.threads), wake: make(chan struct{}, 1)}
	sc.threads = append(sc.threads, t)
	sc.exec.Threads = len(sc.threads)
	go func() {
		<-t.wake
		defer func() {
			if r := recover(); r != nil {
				sc.exec.Panic, sc.exec.PanicIn = r, t.id
			}
			t.done = true
			if sc.active {
				sc.decide()
			}
		}()
		f()
	}()
}

// JoinAll blocks the calling thread until every other thread has finished (not a preemption point).
func JoinAll() {
	if !Active() {
		return
	}
	me := s.cur
	block(func() bool {
		for _, t := range s.threads {
			if t != me && !t.done {
				return false
			}
		}
		return true
	}, "JoinAll")
}

// ThreadID returns the id of the running logical thread (0 = the scenario body).
func ThreadID() int {
	if !Active() {
		return -1
	}
	return s.cur.id
}

// ---- sync shims ----

type WaitGroup struct {
	n int
}

func (w *WaitGroup) Add(d int) {
	point()
	w.n += d
	if w.n < 0 {
		panic("sync: negative WaitGroup counter")
	}
}
func (w *WaitGroup) Done() { w.Add(-1) }
func (w *WaitGroup) Wait() {
	point()
	block(func() bool { return w.n == 0 }, "WaitGroup.Wait")
}

type Mutex struct {
	locked bool
}

func (m *Mutex) Lock() {
	point()
	block(func() bool { return !m.locked }, "Mutex.Lock")
	m.locked = true
}
func (m *Mutex) TryLock() bool {
	point()
	if m.locked {
		return false
	}
	m.locked = true
	return true
}
func (m *Mutex) Unlock() {
	point()
	if !m.locked {
		panic("sync: unlock of unlocked mutex")
	}
	m.locked = false
}

type RWMutex struct {
	w       bool
	readers int
}

func (m *RWMutex) Lock() {
	point()
	block(func() bool { return !m.w && m.readers == 0 }, "RWMutex.Lock")
	m.w = true
}
func (m *RWMutex) Unlock() { point(); m.w = false }
func (m *RWMutex) RLock() {
	point()
	block(func() bool { return !m.w }, "RWMutex.RLock")
	m.readers++
}
func (m *RWMutex) RUnlock() { point(); m.readers-- }

type Once struct {
	done bool
	m    Mutex
}

func (o *Once) Do(f func()) {
	o.m.Lock()
	defer o.m.Unlock()
	if !o.done {
		o.done = true
		f()
	}
}

// Locker mirrors sync.Locker.
type Locker interface {
	Lock()
	Unlock()
}

// ---- explorer ----

// Run executes body as thread 0 under the schedule prefix (default choice 0 afterwards).
func Run(prefix []int, body func()) *Exec {
	sc := &sched{prefix: prefix, exec: &Exec{}, finish: make(chan struct{}), active: true}
	s = sc
	t0 := &thread{id: 0, wake: make(chan struct{}, 1)}
	sc.threads = []*thread{t0}
	sc.cur = t0
	sc.exec.Threads = 1
	go func() {
		defer func() {
			if r := recover(); r != nil {
				sc.exec.Panic, sc.exec.PanicIn = r, 0
			}
			t0.done = true
			if sc.active {
				sc.decide()
			}
		}()
		body()
	}()
	<-sc.finish
	s = nil
	return sc.exec
}

// Stats of an exploration.
type Stats struct {
	Executions   int64
	Decisions    int64 // scheduling decisions executed (transitions)
	Nodes        int64 // distinct decision nodes of the schedule tree visited (states)
	MaxThreads   int
	MaxDecisions int
	BoundReached int  // highest preemption bound fully explored
	Complete     bool // no schedule was cut by the preemption bound (exploration is unbounded-complete)
	Stopped      bool // stop() ended the exploration early
}

// DelayBounded switches the cost model of Explore: when true EVERY departure from the default choice
// costs 1 (delay bounding), not only preemptions of a runnable thread. Used for scenarios with many
// threads, where even the preemption-free schedules (all orders of n workers) are too many.
var DelayBounded bool

// Explore enumerates all schedules of body whose number of preemptions is <= bound and calls
// check after every execution (check returns false to stop). mk must build a completely fresh
// scenario for each execution and return its body.
func Explore(bound int, stop func() bool, mk func() func(), check func(x *Exec, schedule []int) bool) Stats {
	var st Stats
	st.Complete = true
	var rec func(prefix []int) bool
	rec = func(prefix []int) bool {
		if stop != nil && stop() {
			st.Stopped = true
			return false
		}
		x := Run(prefix, mk())
		st.Executions++
		st.Decisions += int64(len(x.Points))
		if d := len(x.Points) - len(prefix); d > 0 {
			st.Nodes += int64(d)
		}
		if x.Threads > st.MaxThreads {
			st.MaxThreads = x.Threads
		}
		if len(x.Points) > st.MaxDecisions {
			st.MaxDecisions = len(x.Points)
		}
		sched := make([]int, len(x.Points))
		for i, p := range x.Points {
			sched[i] = p.Chosen
		}
		if !check(x, sched) {
			return false
		}
		if x.Diverged != "" || x.Deadlock {
			return true
		}
		// preemptions used before decision i
		cost := 0
		pre := make([]int, len(x.Points)+1)
		for i, p := range x.Points {
			pre[i] = cost
			if (p.RunningEnabled || DelayBounded) && p.Chosen != 0 {
				cost++
			}
		}
		for i := len(prefix); i < len(x.Points); i++ {
			p := x.Points[i]
			for alt := 1; alt < len(p.Enabled); alt++ {
				c := pre[i]
				if p.RunningEnabled || DelayBounded {
					c++
				}
				if c > bound {
					st.Complete = false
					continue
				}
				np := make([]int, i+1)
				copy(np, sched[:i])
				np[i] = alt
				if !rec(np) {
					return false
				}
			}
		}
		return true
	}
	rec(nil)
	st.BoundReached = bound
	return st
}
