package vsync

// Channels, select and the rest of package sync's surface under the cooperative scheduler. The overlay
// rewriter turns the library's `chan T` into *Chan[T], make/send/receive/close/range/select into the
// calls below. Blocking is modelled (a blocked thread is disabled until its condition holds), rendezvous
// on unbuffered channels is exact (a send completes only together with a receive), and where the language
// leaves the outcome open - several ready cases of one select - the explorer enumerates every alternative.

import (
	rsync "sync"
)

// ---- the parts of package sync that need no scheduling ----

type (
	Pool = rsync.Pool
	Map  = rsync.Map
)

func OnceFunc(f func()) func() {
	var o Once
	return func() { o.Do(f) }
}

func OnceValue[T any](f func() T) func() T {
	var o Once
	var v T
	return func() T { o.Do(func() { v = f() }); return v }
}

func OnceValues[T1, T2 any](f func() (T1, T2)) func() (T1, T2) {
	var o Once
	var a T1
	var b T2
	return func() (T1, T2) { o.Do(func() { a, b = f() }); return a, b }
}

// Cond mirrors sync.Cond.
type Cond struct {
	L       Locker
	waiting []*condWaiter
}

type condWaiter struct{ woken bool }

func NewCond(l Locker) *Cond { return &Cond{L: l} }

func (c *Cond) Wait() {
	w := &condWaiter{}
	c.waiting = append(c.waiting, w)
	c.L.Unlock()
	block(func() bool { return w.woken }, "Cond.Wait")
	c.L.Lock()
}

func (c *Cond) Signal() {
	point()
	if len(c.waiting) > 0 {
		c.waiting[0].woken = true
		c.waiting = c.waiting[1:]
	}
}

func (c *Cond) Broadcast() {
	point()
	for _, w := range c.waiting {
		w.woken = true
	}
	c.waiting = nil
}

// ---- channels ----

type waiter struct {
	done bool
	idx  int         // which case fired
	val  interface{} // received value
	ok   bool        // received from an open channel / sent
}

type qent struct {
	w   *waiter
	idx int
	val interface{} // value to send (send queue only)
}

type core struct {
	capacity int
	buf      []interface{}
	closed   bool
	sendq    []qent // blocked senders
	recvq    []qent // blocked receivers
}

func live(q []qent) []qent {
	out := q[:0]
	for _, e := range q {
		if !e.w.done {
			out = append(out, e)
		}
	}
	return out
}

type selCase struct {
	c    *core
	send bool
	val  interface{}
}

func (k selCase) ready() bool {
	if k.c == nil {
		return false
	}
	k.c.sendq, k.c.recvq = live(k.c.sendq), live(k.c.recvq)
	if k.send {
		return k.c.closed || len(k.c.recvq) > 0 || len(k.c.buf) < k.c.capacity
	}
	return len(k.c.buf) > 0 || len(k.c.sendq) > 0 || k.c.closed
}

// perform executes a ready case and returns the received value.
func (k selCase) perform() (interface{}, bool) {
	c := k.c
	if k.send {
		if c.closed {
			panic("send on closed channel")
		}
		if len(c.recvq) > 0 {
			e := c.recvq[0]
			c.recvq = c.recvq[1:]
			e.w.done, e.w.idx, e.w.val, e.w.ok = true, e.idx, k.val, true
			return nil, true
		}
		c.buf = append(c.buf, k.val)
		return nil, true
	}
	if len(c.buf) > 0 {
		v := c.buf[0]
		c.buf = c.buf[1:]
		if len(c.sendq) > 0 {
			e := c.sendq[0]
			c.sendq = c.sendq[1:]
			c.buf = append(c.buf, e.val)
			e.w.done, e.w.idx, e.w.ok = true, e.idx, true
		}
		return v, true
	}
	if len(c.sendq) > 0 {
		e := c.sendq[0]
		c.sendq = c.sendq[1:]
		e.w.done, e.w.idx, e.w.ok = true, e.idx, true
		return e.val, true
	}
	return nil, false // closed and drained
}

// doSelect is the common implementation of send, receive and select.
func doSelect(cases []selCase, hasDefault bool, why string) (idx int, val interface{}, ok bool) {
	if !Active() {
		panic("vsync: channel operation outside an exploration")
	}
	point()
	var ready []int
	for i, k := range cases {
		if k.ready() {
			ready = append(ready, i)
		}
	}
	if len(ready) > 0 {
		i := ready[choose(len(ready))]
		v, ok := cases[i].perform()
		return i, v, ok
	}
	if hasDefault {
		return -1, nil, false
	}
	w := &waiter{}
	for i, k := range cases {
		if k.c == nil {
			continue
		}
		if k.send {
			k.c.sendq = append(k.c.sendq, qent{w, i, k.val})
		} else {
			k.c.recvq = append(k.c.recvq, qent{w, i, nil})
		}
	}
	closedCase := func() int {
		for i, k := range cases {
			if k.c != nil && k.c.closed {
				return i
			}
		}
		return -1
	}
	block(func() bool { return w.done || closedCase() >= 0 }, why)
	if w.done {
		return w.idx, w.val, w.ok
	}
	w.done = true // withdraw from every queue
	i := closedCase()
	if cases[i].send {
		panic("send on closed channel")
	}
	return i, nil, false
}

// Chan is the replacement of `chan T`.
type Chan[T any] struct{ c core }

func NewChan[T any](size ...int) *Chan[T] {
	ch := &Chan[T]{}
	if len(size) > 0 {
		if size[0] < 0 {
			panic("makechan: size out of range")
		}
		ch.c.capacity = size[0]
	}
	return ch
}

func (ch *Chan[T]) coreOf() *core {
	if ch == nil {
		return nil
	}
	return &ch.c
}

func (ch *Chan[T]) Send(v T) {
	doSelect([]selCase{{ch.coreOf(), true, v}}, false, "channel send")
}

func (ch *Chan[T]) Recv() T {
	v, _ := ch.Recv2()
	return v
}

func (ch *Chan[T]) Recv2() (T, bool) {
	_, v, ok := doSelect([]selCase{{ch.coreOf(), false, nil}}, false, "channel receive")
	var zero T
	if !ok || v == nil {
		if ok {
			return zero, true // a nil interface value was sent
		}
		return zero, false
	}
	return v.(T), true
}

func (ch *Chan[T]) Close() {
	point()
	if ch == nil {
		panic("close of nil channel")
	}
	if ch.c.closed {
		panic("close of closed channel")
	}
	ch.c.closed = true
}

func (ch *Chan[T]) Len() int {
	if ch == nil {
		return 0
	}
	return len(ch.c.buf)
}

func (ch *Chan[T]) Cap() int {
	if ch == nil {
		return 0
	}
	return ch.c.capacity
}

// Case is one communication clause of a select statement.
type Case interface{ sel() selCase }

type SendC[T any] struct {
	ch *Chan[T]
	v  T
}

func SendCase[T any](ch *Chan[T], v T) *SendC[T] { return &SendC[T]{ch, v} }
func (s *SendC[T]) sel() selCase                 { return selCase{s.ch.coreOf(), true, s.v} }

type RecvC[T any] struct {
	ch  *Chan[T]
	val T
	ok  bool
}

func RecvCase[T any](ch *Chan[T]) *RecvC[T] { return &RecvC[T]{ch: ch} }
func (r *RecvC[T]) sel() selCase            { return selCase{r.ch.coreOf(), false, nil} }
func (r *RecvC[T]) Value() T                { return r.val }
func (r *RecvC[T]) Value2() (T, bool)       { return r.val, r.ok }

type recvSetter interface{ set(v interface{}, ok bool) }

func (r *RecvC[T]) set(v interface{}, ok bool) {
	r.ok = ok
	if v != nil {
		r.val = v.(T)
	}
}

// Select runs a select statement over the cases and returns the index of the clause that fired
// (-1: the default clause).
func Select(hasDefault bool, cases ...Case) int {
	cs := make([]selCase, len(cases))
	for i, c := range cases {
		cs[i] = c.sel()
	}
	if len(cs) == 0 && !hasDefault {
		block(func() bool { return false }, "select {}")
	}
	i, v, ok := doSelect(cs, hasDefault, "select")
	if i >= 0 {
		if r, isRecv := cases[i].(recvSetter); isRecv {
			r.set(v, ok)
		}
	}
	return i
}
