package checks

import (
	"fmt"
	"math/bits"
	"os"
	"path/filepath"
	"regexp"
	"strconv"
	"strings"
	"unicode/utf8"

	at "github.com/DanielSvub/anytype"
	"verif/ev"
	"verif/par"
	"verif/spec"
)

func init() { register("C20", "exploration", runC20) }

// One error injection into the token sequence of a valid document.
type c20Case struct {
	Toks   []string // token texts (injected)
	Detect int      // index of the token whose first byte is the detection character
	Root   spec.Kind
	Kind   string // injection kind
	Prefix string // text before the root bracket
	Mask   uint32 // bit i set: newline in the gap before token i (bit len(Toks): after the last token)
	Inner  int    // the first string token preceding the detection point additionally holds: 1 = a raw LF plus escaped newlines, 2 = escaped newlines only
	Style  int    // what a selected gap receives: index into c20GapStyles
}

// what a selected gap receives: a bare LF, LF after a filler character, a blank line, CRLF, LF followed by indentation
var c20GapStyles = []string{"\n", " \n", "\n\n", "\r\n", "\n  ", "\r", "\r\r\n", "\n\r", "\t\n\t",
	// white space that editors show as a line break but that is not a newline character: NEL, LS, PS, VT, FF
	string(rune(0x85)), string(rune(0x2028)) + "\n", string(rune(0x2029)), "\v\f"}

// styles from this index on are "secondary": used for layouts with at most two filled gaps and for all-gaps
const c20PrimaryStyles = 5

var lineRe = regexp.MustCompile(`line (\d+)`)

func c20Text(k c20Case) (text string, detectOff int) {
	var sb strings.Builder
	sb.WriteString(k.Prefix)
	innerDone := k.Inner == 0
	for i, t := range k.Toks {
		if k.Mask&(1<<uint(i)) != 0 {
			sb.WriteString(c20GapStyles[k.Style])
		}
		if i == k.Detect {
			detectOff = sb.Len()
		}
		if !innerDone && i < k.Detect && len(t) >= 2 && t[0] == '"' {
			// a raw newline inside the string (counts), followed by ESCAPED newlines, which are ordinary characters
			// of the text (the two-character sequence backslash-n and backslash-u000a do not count)
			raw := "\n"
			if k.Inner == 2 {
				raw = "" // no raw control character at all: a literal that a "fast path" for clean strings accepts
			}
			t = t[:1] + raw + bs + "n" + bs + "u000a" + string(rune(0x2028)) + t[1:]
			innerDone = true
		}
		sb.WriteString(t)
	}
	if k.Mask&(1<<uint(len(k.Toks))) != 0 {
		sb.WriteString(c20GapStyles[k.Style])
	}
	return sb.String(), detectOff
}

// c20One returns (msg, sig, cited) for one case; via = "string" or a file path to use ParseFile.
func c20One(k c20Case, file string) (msg, sig string, cited bool) {
	text, off := c20Text(k)
	want := 1 + strings.Count(text[:off], "\n")
	var err error
	var isNil bool
	entry := "ParseList"
	p, pv := try(func() {
		switch {
		case file != "":
			entry = "ParseFile"
			if e := os.WriteFile(file, []byte(text), 0o644); e != nil {
				ev.Harness("C20", "cannot write %s: %v", file, e)
			}
			var o at.Object
			o, err = at.ParseFile(file)
			isNil = o == nil
		case k.Root == spec.Lst:
			var l at.List
			l, err = at.ParseList(text)
			isNil = l == nil
		default:
			entry = "ParseObject"
			var o at.Object
			o, err = at.ParseObject(text)
			isNil = o == nil
		}
	})
	if p {
		return fmt.Sprintf("%s(%+q) panicked: %v", entry, text, pv), "line/panic/" + k.Kind, false
	}
	if err == nil {
		_ = isNil
		return "", "accepted", false // the statement is conditional on a line-citing rejection; acceptance is only counted
	}
	m := lineRe.FindStringSubmatch(err.Error())
	if m == nil {
		return "", "", false
	}
	got, _ := strconv.Atoi(m[1])
	if got != want {
		// Fillers such as NEL, LS, PS, VT, FF are white space for the unchanged (lenient) parser but not JSON white
		// space. For a stricter parser a text containing one outside a string literal has MORE than the one injected
		// error: it may rightly report the filler character itself, or - taking it for the start of a bare literal -
		// the delimiter that ends that literal, which can lie behind our injection point. The statement then asks for
		// the line of that character. For such texts the cited line is therefore only required to be a line that some
		// character from the first such filler to the end of the text is on; a newline MISCOUNT (fillers counted as
		// line breaks) still falls outside that range in the layouts whose fillers contain no LF at all.
		inStr, esc, first := false, false, -1
		for i := 0; i < len(text) && first < 0; {
			r, size := utf8.DecodeRuneInString(text[i:])
			switch {
			case inStr && esc:
				esc = false
			case inStr && r == '\\':
				esc = true
			case r == '"':
				inStr = !inStr
			case !inStr && (r == 0x85 || r == 0x2028 || r == 0x2029 || r == '\v' || r == '\f' || r == 0xA0):
				first = i
			}
			i += size
		}
		if first >= 0 && got >= 1+strings.Count(text[:first], "\n") && got <= 1+strings.Count(text, "\n") {
			return "", "", true
		}
		return fmt.Sprintf("%s(%+q): error %q cites line %d, but the error is detected at byte %d (%+q) which is on line %d", entry, text, err.Error(), got, off, text[off:off+1], want), "line/wrong/" + k.Kind + "/" + entry, true
	}
	return "", "", true
}

// c20Injections derives every single-error variant of a valid document's token sequence.
func c20Injections(v *spec.V, emit func(toks []string, detect int, kind string)) {
	toks := jsonTokens(v, plainQuote, nil)
	// structural role of every token: track container stack and expectation
	type frame struct {
		obj       bool
		expectKey bool
	}
	var st []frame
	for i, t := range toks {
		cp := func() []string { return append([]string(nil), toks...) }
		inObj := len(st) > 0 && st[len(st)-1].obj
		switch {
		case t == "{" || t == "[":
			st = append(st, frame{obj: t == "{", expectKey: t == "{"})
			if t == "{" {
				// unexpected character where a key must start (right after '{')
				n := cp()
				n = append(n[:i+1], append([]string{"x"}, n[i+1:]...)...)
				emit(n, i+1, "key-start-after-brace")
			}
		case t == "}" || t == "]":
			st = st[:len(st)-1]
			if len(st) > 0 && st[len(st)-1].obj {
				// after a nested value inside an object: unexpected character
				n := cp()
				n = append(n[:i+1], append([]string{"x"}, n[i+1:]...)...)
				emit(n, i+1, "after-nested-value")
			}
		case t == ",":
			if inObj {
				st[len(st)-1].expectKey = true
				n := cp()
				n = append(n[:i+1], append([]string{"x"}, n[i+1:]...)...)
				emit(n, i+1, "key-start-after-comma")
				// trailing comma then closer of the wrong kind: {"a":1,]
				n2 := cp()
				n2 = append(n2[:i+1], append([]string{"]"}, n2[i+1:]...)...)
				emit(n2, i+1, "key-start-wrong-closer")
			}
		case t == ":":
		case inObj && st[len(st)-1].expectKey && t[0] == '"':
			st[len(st)-1].expectKey = false
			// between key and colon
			n := cp()
			n = append(n[:i+1], append([]string{"x"}, n[i+1:]...)...)
			emit(n, i+1, "colon-expected")
		case t[0] != '"':
			// a literal (number / true / false / null): make it invalid; detected at the following delimiter
			for _, bad := range []string{"tru", "nul", "1x", "-"} {
				n := cp()
				n[i] = bad
				emit(n, i+1, "invalid-literal")
			}
		}
	}
}

var c20Leaves = []*spec.V{spec.I(1), spec.S("s"), spec.B(true)}
var c20Keys = []string{"a", "b"}
var c20Prefixes = []string{"", "\n", "x\n\ny ", "\n\n\n"}

func runC20(c *ev.Ctx) {
	defer sizeSweep(c, "C20")
	nodes, maxGapsFull := 4, 8
	if c.Thorough() {
		nodes, maxGapsFull = 5, 12
	}
	c.Rule(fmt.Sprintf("skeletons = every tree with <= %d nodes, depth <= 3 over leaves {1,\"s\",true}, keys {a,b}; injections at every applicable token: unexpected character where a key must start (after '{' and after ','), wrong closer after a comma, unexpected character between key and colon, unexpected character after a nested value in an object, invalid literal (tru/nul/1x/-) terminated by its following delimiter; newline layouts = every subset of token gaps is filled when the document has <= %d gaps (else every layout with <= 3 filled gaps plus all-gaps), each in 5 filling styles (LF, SP LF, LF LF, CR LF, LF SP SP; layouts with <= 2 filled gaps and all-gaps also in 8 more: lone CR, CR CR LF, LF CR, TAB LF TAB, NEL, LS LF, PS, VT FF), x 4 prefixes before the root bracket, x optional raw LF + escaped newlines (backslash-n, backslash-u000a) + U+2028 inside a preceding string; ParseFile reads the object-rooted texts from a temp file for the layouts with at most one filled gap (all styles but LF LF) and for all-gaps (every style). Expected line = 1 + number of LF bytes before the detection character in the whole input. Non-trivial = distinct text whose expected line is > 1.", nodes, maxGapsFull))
	c.Assume("errors whose message cites no line are outside the statement; their number is reported as errors_without_line")
	dir, err := os.MkdirTemp("/verif/.cache/tmp", "c20files")
	if err != nil {
		dir, _ = os.MkdirTemp("", "c20files")
	}
	defer os.RemoveAll(dir)

	gen := func(emit func(c20Case) bool) {
		ok := true
		spec.NewEnum(c20Leaves, c20Keys).Containers(nodes, 3, func(v *spec.V) bool {
			c20Injections(v, func(toks []string, detect int, kind string) {
				if !ok {
					return
				}
				g := len(toks) + 1
				var masks []uint32
				if g <= maxGapsFull {
					for m := uint32(0); m < 1<<uint(g); m++ {
						masks = append(masks, m)
					}
				} else {
					masks = append(masks, 0, 1<<uint(g)-1)
					for a := 0; a < g; a++ {
						masks = append(masks, 1<<uint(a))
						for b := a + 1; b < g; b++ {
							masks = append(masks, 1<<uint(a)|1<<uint(b))
							for d := b + 1; d < g; d++ {
								masks = append(masks, 1<<uint(a)|1<<uint(b)|1<<uint(d))
							}
						}
					}
				}
				for _, m := range masks {
					for pi, pre := range c20Prefixes {
						inner := []int{0}
						if pi == 0 {
							inner = []int{0, 1, 2}
						}
						for _, in := range inner {
							for st := range c20GapStyles {
								if m == 0 && st > 0 {
									break // no gap selected: the style is irrelevant
								}
								if st >= c20PrimaryStyles && bits.OnesCount32(m) > 2 && m != 1<<uint(g)-1 {
									break
								}
								if !emit(c20Case{Toks: toks, Detect: detect, Root: v.K, Kind: kind, Prefix: pre, Mask: m, Inner: in, Style: st}) {
									ok = false
									return
								}
							}
						}
					}
				}
			})
			return ok
		})
	}
	par.Stream(c.Workers, func() bool { return c.Expired() || c.TooMany() }, gen, func(w int, k c20Case) {
		c.Eval(1)
		text, off := c20Text(k)
		if off > 0 && strings.Contains(text[:off], "\n") {
			c.NontrivialH(ev.Hash(text))
		}
		msg, sig, cited := c20One(k, "")
		if !cited && msg == "" && sig == "accepted" {
			c.Add("injected_texts_accepted_by_the_lenient_parser", 1)
		} else if !cited && msg == "" {
			c.Add("errors_without_line", 1)
		}
		if cited {
			c.Add("errors_citing_a_line", 1)
		}
		c.SampleTag(k.Kind, func() interface{} {
			return map[string]interface{}{"injection": k.Kind, "text": text, "detected_at_byte": off, "expected_line": 1 + strings.Count(text[:off], "\n")}
		})
		if msg != "" {
			c.Violate(ev.Violation{Sig: sig, Msg: msg, Witness: map[string]interface{}{"text": text, "detect_offset": off, "injection": k.Kind}}, func() string { _, s, _ := c20One(k, ""); return s })
		}
		// ParseFile for object-rooted texts, on layouts with at most one LF (file I/O is slow)
		if k.Root == spec.Obj && k.Inner == 0 && (k.Mask&(k.Mask-1) == 0 && (k.Style <= 1 || k.Style >= 3) || k.Mask == 1<<uint(len(k.Toks)+1)-1) {
			c.Eval(1)
			path := filepath.Join(dir, fmt.Sprintf("w%d.json", w))
			if msg, sig, _ := c20One(k, path); msg != "" {
				c.Violate(ev.Violation{Sig: sig, Msg: msg, Witness: map[string]interface{}{"file_content": text, "detect_offset": off, "injection": k.Kind}}, func() string { _, s, _ := c20One(k, path); return s })
			}
		}
	})
	if c.Expired() {
		c.Cut("deadline reached before the layout space was completed")
	}
}
