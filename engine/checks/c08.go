package checks

import (
	"fmt"

	at "github.com/DanielSvub/anytype"
	"verif/bfs"
	"verif/ev"
	"verif/model"
	"verif/spec"
)

func init() { register("C08", "model_checking", runC08) }

// mutation of one node (container #Node in the deterministic traversal of both trees)
type c08Op struct {
	Node int
	K    int
	Key  string
}

var c08ListMuts = []string{"Add(9)", "Insert(0,9)", "Replace(0,9)", "Delete(0)", "Pop()", "Clear()", "Reverse()", "Sort()", "SetTF(#0,9)", "SetTF(#3.z,9)", "UnsetTF(#0)", "Add(NewList(8))", "SetTF(#0#0,9)"}
var c08ObjMuts = []string{"Set(k,9)", "Set(new,9)", "Unset(k)", "Clear()", "SetTF(.k,9)", "SetTF(.new#1,9)", "UnsetTF(.k)", "Set(k,NewObject(x,8))", "SetTF(.k.z,9)"}

func c08Label(w W) func(o c08Op) string {
	return func(o c08Op) string {
		if o.Key == "\x00list" {
			return fmt.Sprintf("node#%d.%s", o.Node, c08ListMuts[o.K])
		}
		return fmt.Sprintf("node#%d.%s[k=%q]", o.Node, c08ObjMuts[o.K], o.Key)
	}
}

func c08Ops(w W) []c08Op {
	var ops []c08Op
	for ni, c := range w.Containers() {
		switch m := c.(type) {
		case *model.L:
			n := len(m.E)
			for k := range c08ListMuts {
				switch k {
				case 2, 3, 4, 10:
					if n == 0 {
						continue
					}
				case 7:
					if n == 0 || sortDomain(m.E) != 1 {
						continue
					}
				}
				ops = append(ops, c08Op{Node: ni, K: k, Key: "\x00list"})
			}
		case *model.O:
			ks := keysOf(m.M)
			for k := range c08ObjMuts {
				switch k {
				case 0, 2, 4, 6, 7, 8:
					for _, key := range ks {
						ops = append(ops, c08Op{Node: ni, K: k, Key: key})
					}
				default:
					ops = append(ops, c08Op{Node: ni, K: k})
				}
			}
		}
	}
	return ops
}

func c08Apply(w W, o c08Op) (msg, sig string) {
	c := w.Containers()[o.Node]
	var pv interface{}
	pn := false
	switch m := c.(type) {
	case *model.L:
		l := w.RL(m)
		pn, pv = try(func() {
			switch o.K {
			case 0:
				l.Add(9)
				m.E = append(m.E, 9)
			case 1:
				l.Insert(0, 9)
				m.E = append([]interface{}{9}, m.E...)
			case 2:
				l.Replace(0, 9)
				m.E[0] = 9
			case 3:
				l.Delete(0)
				m.E = m.E[1:]
			case 4:
				l.Pop()
				m.E = m.E[:len(m.E)-1]
			case 5:
				l.Clear()
				m.E = nil
			case 6:
				l.Reverse()
				for i, j := 0, len(m.E)-1; i < j; i, j = i+1, j-1 {
					m.E[i], m.E[j] = m.E[j], m.E[i]
				}
			case 7:
				l.Sort()
				sortModel(m.E)
			case 8:
				l.SetTF("#0", 9)
				modelSetTF(m, []tfSeg{{'#', "0"}}, 9)
			case 9:
				l.SetTF("#3.z", 9)
				modelSetTF(m, []tfSeg{{'#', "3"}, {'.', "z"}}, 9)
			case 10:
				l.UnsetTF("#0")
				m.E = m.E[1:]
			case 11:
				nl, nm := at.NewList(8), model.NewL(8)
				w.Bind(nm, nl)
				l.Add(nl)
				m.E = append(m.E, nm)
			case 12:
				l.SetTF("#0#0", 9)
				modelSetTF(m, []tfSeg{{'#', "0"}, {'#', "0"}}, 9)
			}
		})
	case *model.O:
		ob := w.RO(m)
		pn, pv = try(func() {
			switch o.K {
			case 0:
				ob.Set(o.Key, 9)
				m.M[o.Key] = 9
			case 1:
				ob.Set("new", 9)
				m.M["new"] = 9
			case 2:
				ob.Unset(o.Key)
				delete(m.M, o.Key)
			case 3:
				ob.Clear()
				m.M = map[string]interface{}{}
			case 4:
				ob.SetTF("."+o.Key, 9)
				m.M[o.Key] = 9
			case 5:
				ob.SetTF(".new#1", 9)
				modelSetTF(m, []tfSeg{{'.', "new"}, {'#', "1"}}, 9)
			case 6:
				ob.UnsetTF("." + o.Key)
				delete(m.M, o.Key)
			case 7:
				no, nm := at.NewObject("x", 8), model.NewO()
				nm.M["x"] = 8
				w.Bind(nm, no)
				ob.Set(o.Key, no)
				m.M[o.Key] = nm
			case 8:
				ob.SetTF("."+o.Key+".z", 9)
				modelSetTF(m, []tfSeg{{'.', o.Key}, {'.', "z"}}, 9)
			}
		})
	}
	if pn {
		return fmt.Sprintf("mutation panicked: %v", pv), "mutation-panic"
	}
	w.AdoptUnbound()
	return "", ""
}

var c08Violation = map[*model.World][2]string{}

// c08Init builds tree v (variant 1: every list gets spare capacity first), clones it, and
// registers original (reg 0) and clone (reg 1). Problems found while cloning are stored in the
// world's probe keys slot so that Check reports them.
type c08World struct {
	*model.World
}

func c08Init(v *spec.V, variant int) func() W {
	return func() W {
		route := 0
		if variant >= 2 {
			route = variant
		}
		w := worldFromSpecRoute(v, 2, route)
		w.Tag = fmt.Sprintf("route%d|", variant)
		w.ProbeVals = []interface{}{1, 9}
		w.ProbeKeys = []string{"a", "b", "new", "z"}
		w.UseShape = false
		if variant == 1 {
			for _, c := range w.Containers() {
				if m, ok := c.(*model.L); ok {
					w.RL(m).Add(0, 0).Pop().Pop()
				}
			}
		}
		root := w.Regs[0]
		var cl interface{}
		if m, ok := root.(*model.L); ok {
			cl = w.RL(m).Clone()
		} else {
			cl = w.RO(root.(*model.O)).Clone()
		}
		// a handle of the clone that is already known is a container shared with the original
		shared := ""
		var scan func(r interface{}, path string)
		scan = func(r interface{}, path string) {
			if shared != "" {
				return
			}
			switch x := r.(type) {
			case at.List:
				if w.ModelOf(x) != nil {
					shared = path
					return
				}
				for i := 0; i < x.Count(); i++ {
					scan(x.Get(i), fmt.Sprintf("%s#%d", path, i))
				}
			case at.Object:
				if w.ModelOf(x) != nil {
					shared = path
					return
				}
				x.ForEach(func(k string, v interface{}) { scan(v, path+"."+k) })
			}
		}
		scan(cl, "$")
		if shared != "" {
			w.ProbeKeys = append(w.ProbeKeys, "\x00shared:"+shared)
		}
		w.Regs[1] = w.Adopt(cl)
		return w
	}
}

func hasNested(v *spec.V) bool {
	for _, e := range v.L {
		if e.IsContainer() {
			return true
		}
	}
	for _, e := range v.KV {
		if e.V.IsContainer() {
			return true
		}
	}
	return false
}

func c08Check(w W) (string, string) {
	for _, k := range w.ProbeKeys {
		if len(k) > 8 && k[:8] == "\x00shared:" {
			return fmt.Sprintf("the clone of %s contains, at %s, the identical container that is reachable from the original", model.Show(w.Regs[0]), k[8:]), "clone/shared-container"
		}
	}
	return w.Check()
}

func c08InitCheck(w W) (string, string) {
	if !model.DeepEqual(w.Regs[0], w.Regs[1]) {
		return fmt.Sprintf("Clone of %s is %s", model.Show(w.Regs[0]), model.Show(w.Regs[1])), "clone/content"
	}
	a, b := w.ToReal(w.Regs[0]), w.ToReal(w.Regs[1])
	if !rootEquals(a, b) || !rootEquals(b, a) {
		return fmt.Sprintf("Clone of %s does not Equal its source", model.Show(w.Regs[0])), "clone/equals"
	}
	return "", ""
}

func runC08(c *ev.Ctx) {
	defer sizeSweep(c, "C08")
	type phase struct {
		name                  string
		nodes, treeDepth, len int
	}
	phases := []phase{{"one mutation anywhere (trees <= 5 nodes)", 5, 4, 1}, {"two mutations anywhere (trees <= 4 nodes)", 4, 4, 2}}
	if c.Thorough() {
		phases = []phase{{"one mutation anywhere (trees <= 6 nodes)", 6, 4, 1}, {"two mutations anywhere (trees <= 5 nodes)", 5, 4, 2}, {"three mutations anywhere (trees <= 3 nodes)", 3, 3, 3}}
	}
	c.Rule("for every list/object-rooted tree t over leaves {nil,1,1.5,\"s\"}, keys {a,b} (also with every list given spare private capacity first, and - for trees with nested containers - reached through 7 other construction routes: lists that are SubList / Concat / NewListOf results, the tree parsed from its own text, a Clone of a Clone, objects that are Merge / Pluck results, equal scalars sharing one field object, nested containers that are user types embedding List/Object): c := t.Clone(); initial check: equal content (model walk + Equals both ways) and no container handle reachable from c is reachable from t; then explicit-state BFS over mutation histories applied at ANY node of t or of c out of 13 list mutations (Add, Insert, Replace, Delete, Pop, Clear, Reverse, Sort, 4 tree-form writes, adding a new nested list) and 9 object mutations (Set, Unset, Clear, 4 tree-form writes, setting a new nested object) - after every mutation both trees are observed completely and must equal the two-heap model (only the mutated node changed).")
	c.Assume("start trees are enumerated exhaustively up to the stated size; mutation values are fixed representatives (9, a fresh container)")
	en := spec.NewEnum([]*spec.V{spec.NilV, spec.I(1), spec.F(1.5), spec.S("s")}, []string{"a", "b"})
	c08Reclone(c, en, phases[0].nodes, phases[0].treeDepth)
	for _, ph := range phases {
		if c.Expired() {
			c.Cut("phase " + ph.name + " not started (deadline)")
			continue
		}
		var inits []func() W
		en.Containers(ph.nodes, ph.treeDepth, func(v *spec.V) bool {
			inits = append(inits, c08Init(v, 0))
			if v.Nodes() <= ph.nodes-1 {
				inits = append(inits, c08Init(v, 1))
				// the same tree reached through other construction routes (SubList / Concat / NewListOf results,
				// parsed text, clone of a clone, Merge / Pluck results): only for trees that contain a nested container
				if ph.len == 1 && (v.Depth() >= 3 || (v.Depth() == 2 && hasNested(v))) {
					for _, route := range []int{2, 3, 4, 5, 6, 7, 8, 9, 10} {
						inits = append(inits, c08Init(v, route))
					}
				}
			}
			return true
		})
		sys := &bfs.System[W, c08Op]{Name: ph.name, Inits: inits, Ops: c08Ops, Apply: c08Apply,
			Label: func(o c08Op) string {
				if o.Key == "\x00list" {
					return fmt.Sprintf("node#%d.%s", o.Node, c08ListMuts[o.K])
				}
				return fmt.Sprintf("node#%d.%s[k=%q]", o.Node, c08ObjMuts[o.K], o.Key)
			},
			Check: func(w W) (string, string) {
				if m, s := c08Check(w); m != "" {
					return m, s
				}
				return "", ""
			},
			Key: func(w W) string { return w.Key() }, MaxDepth: ph.len,
			Describe: func(w W) string { return "original | clone = " + w.Describe() }}
		// initial clone check (content / Equals) on every start state
		for i, mk := range inits {
			if i%16 == 0 && c.Expired() {
				break
			}
			w := mk()
			if m, s := c08InitCheck(w); m != "" {
				mk := mk
				c.Violate(ev.Violation{Sig: s, Msg: m, Witness: map[string]interface{}{"tree": model.Show(w.Regs[0])}}, func() string { _, s := c08InitCheck(mk()); return s })
			}
		}
		res := bfs.Run(c, sys)
		c.Set("scenario/"+ph.name, map[string]interface{}{"start_states": len(inits), "states": res.States, "depth_completed": res.DepthCompleted, "depth_bound": ph.len})
	}
}
