package checks

import (
	"fmt"
	"math"
	"sort"
	"strings"

	at "github.com/DanielSvub/anytype"
	"verif/ev"
	"verif/jsonref"
)

// Size sweeps. The small-scope enumerations of the individual checks stop at 4-6 elements, so a code
// path that only exists for LONG containers (chunking, batching, a parallel fast path above a threshold,
// a pre-sized buffer) is out of their reach. Each property therefore also runs its oracle on containers
// whose size walks around the usual thresholds, with the interesting position (the differing element,
// the nested container, the odd element out) at the first, middle and LAST places.
var sweepSizes = []int{7, 16, 17, 63, 64, 65, 255, 256, 257, 511, 512, 513, 600, 1023, 1024, 1025, 2049}

func sweepPositions(n int) []int {
	return uniqInts(0, 1, n/2, n-2, n-1)
}

type sweepCase struct {
	name string
	run  func(n, pos int) string // "" = ok
}

// cases listed here run over these sizes instead of sweepSizes
var customSizes = map[string][]int{}

// byte lengths for long STRINGS (buffer sizes of scanners/readers: 4 KiB, 64 KiB)
var longStringSizes = []int{1000, 4095, 4096, 4097, 65535, 65536, 65537, 70000, 200001}

func intsUpTo(n int) []interface{} {
	v := make([]interface{}, n)
	for i := range v {
		v[i] = i
	}
	return v
}

// sizeSweep runs the sweep cases of one property.
func sizeSweep(c *ev.Ctx, prop string) {
	cases := sweepCases[prop]
	if len(cases) == 0 {
		return
	}
	n0 := c.Evals()
	for _, sc := range cases {
		sizes, custom := customSizes[sc.name]
		if !custom {
			sizes = sweepSizes
		}
		for _, n := range sizes {
			for _, pos := range sweepPositions(n) {
				if custom && pos > 1 {
					continue // long-string cases use pos only as a variant selector (0, 1)
				}
				if pos < 0 || pos >= n {
					continue
				}
				c.Eval(1)
				c.Nontrivial(fmt.Sprintf("size/%s/%d/%d", sc.name, n, pos))
				var msg string
				if pn, pv := try(func() { msg = sc.run(n, pos) }); pn {
					msg = fmt.Sprintf("panic: %v", pv)
				}
				if msg != "" {
					sc, n, pos := sc, n, pos
					c.Violate(ev.Violation{Sig: "size-sweep/" + sc.name, Msg: fmt.Sprintf("%s with %d elements, position %d: %s", sc.name, n, pos, msg),
						Witness: map[string]interface{}{"case": sc.name, "size": n, "position": pos}}, func() string {
						m := ""
						if pn, _ := try(func() { m = sc.run(n, pos) }); pn || m != "" {
							return "size-sweep/" + sc.name
						}
						return ""
					})
				}
			}
		}
	}
	names := make([]interface{}, len(cases))
	for i, sc := range cases {
		if sz, custom := customSizes[sc.name]; custom {
			names[i] = map[string]interface{}{"case": sc.name, "sizes_or_depths": sz, "variants": 2}
		} else {
			names[i] = map[string]interface{}{"case": sc.name, "sizes": "default", "positions": "first, second, middle, last but one, last"}
		}
	}
	c.Set("size_sweep", map[string]interface{}{"default_sizes": sweepSizes, "cases": names, "evaluations": c.Evals() - n0})
}

var sweepCases = map[string][]sweepCase{
	"C01": {
		{"round trip of a long mixed list", func(n, pos int) string {
			l := at.NewList()
			for i := 0; i < n; i++ {
				switch i % 4 {
				case 0:
					l.Add(i)
				case 1:
					l.Add(float64(i) + 0.5)
				case 2:
					l.Add(fmt.Sprint("s", i))
				default:
					l.Add(at.NewObject("k", i))
				}
			}
			l.Replace(pos, strings.Repeat("x", n)+"\n")
			p, err := at.ParseList(l.String())
			if err != nil {
				return "re-parse failed: " + err.Error()
			}
			if !p.Equals(l) || !l.Equals(p) || p.Count() != n {
				return "re-parsed list does not Equal the original"
			}
			return ""
		}},
		{"round trip of an object with many keys", func(n, pos int) string {
			o := at.NewObject()
			for i := 0; i < n; i++ {
				o.Set(fmt.Sprintf("key%04d", i), i)
			}
			o.Set(fmt.Sprintf("key%04d", pos), at.NewList(1.0, "z"))
			p, err := at.ParseObject(o.String())
			if err != nil {
				return "re-parse failed: " + err.Error()
			}
			if !p.Equals(o) || !o.Equals(p) || p.Count() != n {
				return "re-parsed object does not Equal the original"
			}
			return ""
		}},
	},
	"C02": {
		{"String() of a long list for an independent decoder", func(n, pos int) string {
			vals := intsUpTo(n)
			vals[pos] = "a\"b\\" + strings.Repeat("é", 3)
			l := at.NewList(vals...)
			s := l.String()
			if !jsonref.Valid(s) {
				return "not valid JSON"
			}
			dec, err := jsonref.Decode(s)
			arr, ok := dec.([]interface{})
			if err != nil || !ok || len(arr) != n {
				return fmt.Sprintf("decoder sees %d elements (err %v)", len(arr), err)
			}
			if str, ok := arr[pos].(string); !ok || str != vals[pos] {
				return fmt.Sprintf("element %d decodes to %v", pos, arr[pos])
			}
			if fmt.Sprint(arr[n-1]) != fmt.Sprint(vals[n-1]) && pos != n-1 {
				return fmt.Sprintf("last element decodes to %v", arr[n-1])
			}
			return ""
		}},
	},
	"C05": {
		{"long list against a slice model", func(n, pos int) string {
			l := at.NewList(intsUpTo(n)...)
			m := intsUpTo(n)
			l.Insert(pos, "ins")
			m = append(m[:pos], append([]interface{}{"ins"}, m[pos:]...)...)
			l.Delete(pos/2, n)
			m = append(m[:n], m[n+1:]...)
			m = append(m[:pos/2], m[pos/2+1:]...)
			l.Replace(len(m)-1, "last").Add("tail").Reverse()
			m[len(m)-1] = "last"
			m = append(m, "tail")
			for i, j := 0, len(m)-1; i < j; i, j = i+1, j-1 {
				m[i], m[j] = m[j], m[i]
			}
			sub := l.SubList(1, -1)
			if !sameSeq(l.Slice(), m) || l.Count() != len(m) {
				return "list differs from the slice model after Insert/Delete/Replace/Add/Reverse"
			}
			if !sameSeq(sub.Slice(), m[1:len(m)-1]) {
				return "SubList(1,-1) differs from the slice model"
			}
			for _, probe := range []interface{}{"ins", "tail", "last", n, 0, n - 1, pos} {
				want := false
				for _, x := range m {
					want = want || sameVal(x, probe)
				}
				if l.Contains(probe) != want {
					return fmt.Sprintf("Contains(%v) disagrees with the slice model (want %v)", probe, want)
				}
			}
			return ""
		}},
	},
	"C06": {
		{"object with many keys against a map model", func(n, pos int) string {
			o := at.NewObject()
			m := map[string]interface{}{}
			for i := 0; i < n; i++ {
				k := fmt.Sprintf("k%d", i)
				o.Set(k, i)
				m[k] = i
			}
			pk := fmt.Sprintf("k%d", pos)
			o.Unset(pk, "absent")
			delete(m, pk)
			o.Set("k0", "first", fmt.Sprintf("k%d", n-1), "last")
			m["k0"], m[fmt.Sprintf("k%d", n-1)] = "first", "last"
			if o.Count() != len(m) || o.Keys().Count() != len(m) || o.Values().Count() != len(m) || len(o.Dict()) != len(m) {
				return fmt.Sprintf("Count/Keys/Values/Dict disagree: %d %d %d %d, want %d", o.Count(), o.Keys().Count(), o.Values().Count(), len(o.Dict()), len(m))
			}
			for k, v := range m {
				if !o.KeyExists(k) || !sameVal(o.Get(k), v) {
					return "field " + k + " differs from the map model"
				}
			}
			if o.KeyExists(pk) && pos != 0 && pos != n-1 {
				return "unset key still exists"
			}
			mg := at.NewObject("k1", "recv", "own", 1).Merge(o)
			if mg.Count() != len(m)+1+boolInt(!o.KeyExists("k1")) || (o.KeyExists("k1") && !sameVal(mg.Get("k1"), o.Get("k1"))) {
				return "Merge with a big argument: wrong key set or the receiver's value won"
			}
			return ""
		}},
	},
	"C07": {
		{"long lists differing in one place", func(n, pos int) string {
			a := at.NewList(intsUpTo(n)...)
			same := at.NewList(intsUpTo(n)...)
			if !a.Equals(same) || !same.Equals(a) {
				return "identical long lists are not Equal"
			}
			for _, alt := range []interface{}{-1, float64(pos), "x", nil, at.NewList()} {
				vals := intsUpTo(n)
				vals[pos] = alt
				b := at.NewList(vals...)
				if a.Equals(b) || b.Equals(a) {
					return fmt.Sprintf("lists differing only at index %d (%v there) are reported Equal", pos, alt)
				}
				oa, ob := at.NewObject("k", a, "z", 1), at.NewObject("z", 1, "k", b)
				if oa.Equals(ob) || ob.Equals(oa) {
					return fmt.Sprintf("objects holding long lists that differ only at index %d are reported Equal", pos)
				}
			}
			return ""
		}},
		{"objects with many keys differing in one place", func(n, pos int) string {
			mk := func(diff int, val interface{}, rename bool) at.Object {
				o := at.NewObject()
				for i := 0; i < n; i++ {
					k := fmt.Sprintf("k%d", i)
					if i == diff {
						if rename {
							k += "x"
						}
						o.Set(k, val)
					} else {
						o.Set(k, i)
					}
				}
				return o
			}
			a := mk(-1, nil, false)
			if !a.Equals(mk(-1, nil, false)) {
				return "identical big objects are not Equal"
			}
			if a.Equals(mk(pos, float64(pos), false)) || mk(pos, float64(pos), false).Equals(a) {
				return "big objects differing in the kind of one value are reported Equal"
			}
			if a.Equals(mk(pos, pos, true)) || mk(pos, pos, true).Equals(a) {
				return "big objects with one key renamed are reported Equal"
			}
			return ""
		}},
	},
	"C08": {
		{"Clone of a long list with a nested container", func(n, pos int) string {
			vals := intsUpTo(n)
			inner, innerO := at.NewList(pos), at.NewObject("p", pos)
			vals[pos] = inner
			vals[n-1-pos] = innerO
			l := at.NewList(vals...)
			if pos == n-1-pos {
				vals[pos] = innerO
				l = at.NewList(vals...)
			}
			cl := l.Clone()
			if !cl.Equals(l) || !l.Equals(cl) {
				return "clone does not Equal its source"
			}
			for i := 0; i < n; i++ {
				switch x := cl.Get(i).(type) {
				case at.List:
					if x == l.Get(i) {
						return fmt.Sprintf("the nested list at index %d is the identical container in clone and source", i)
					}
					x.Add("changed")
				case at.Object:
					if x == l.Get(i) {
						return fmt.Sprintf("the nested object at index %d is the identical container in clone and source", i)
					}
					x.Set("changed", 1)
				}
			}
			if pos != n-1-pos && inner.Count() != 1 {
				return "mutating the clone's nested list changed the source"
			}
			if innerO.Count() != 1 {
				return "mutating the clone's nested object changed the source"
			}
			return ""
		}},
		{"Clone of an object with many keys and a nested container", func(n, pos int) string {
			o := at.NewObject()
			for i := 0; i < n; i++ {
				o.Set(fmt.Sprintf("k%d", i), i)
			}
			inner := at.NewList(1)
			o.Set(fmt.Sprintf("k%d", pos), inner)
			cl := o.Clone()
			if !cl.Equals(o) {
				return "clone does not Equal its source"
			}
			ci := cl.GetList(fmt.Sprintf("k%d", pos))
			if ci == inner {
				return "nested list shared between clone and source"
			}
			ci.Add(2)
			if inner.Count() != 1 {
				return "mutating the clone's nested list changed the source"
			}
			return ""
		}},
	},
	"C09": {
		{"derivations from a long list own their storage", func(n, pos int) string {
			l := at.NewList(intsUpTo(n)...)
			arg := at.NewList("a", "b")
			ds := map[string]at.List{"Concat": l.Concat(arg), "SubList": l.SubList(0, 0), "Filter": l.Filter(func(interface{}) bool { return true }),
				"Map": l.Map(func(_ int, v interface{}) interface{} { return v }), "Clone": l.Clone(), "MapAsync": l.MapAsync(func(_ int, v interface{}) interface{} { return v })}
			sl := l.Slice()
			l.Replace(pos, "changed").Add("more").Delete(0)
			names := make([]string, 0, len(ds))
			for k := range ds {
				names = append(names, k)
			}
			sort.Strings(names)
			for _, k := range names {
				d := ds[k]
				want := n
				if k == "Concat" {
					want = n + 2
				}
				if d.Count() != want || !sameVal(d.Get(pos), pos) || !sameVal(d.Get(0), 0) || !sameVal(d.Get(n-1), n-1) {
					return k + " result changed when the receiver was mutated afterwards"
				}
			}
			if len(sl) != n || !sameVal(sl[pos], pos) {
				return "Slice() result changed when the receiver was mutated afterwards"
			}
			if arg.Count() != 2 {
				return "Concat changed its argument"
			}
			return ""
		}},
	},
	"C13": {
		{"native export of a long list", func(n, pos int) string {
			vals := intsUpTo(n)
			vals[pos] = map[string]interface{}{"in": []interface{}{1, 2}}
			l := at.NewListFrom(vals)
			nat := l.NativeSlice()
			if len(nat) != n || renderNative(nat) != renderNative(vals) {
				return "NativeSlice is not deep-equal to the source"
			}
			if hasContainer(nat) {
				return "NativeSlice contains an anytype container"
			}
			nat[pos].(map[string]interface{})["in"].([]interface{})[0] = 99
			nat[n-1] = "x"
			if renderNative(l.NativeSlice()) != renderNative(vals) {
				return "modifying the export changed the container"
			}
			return ""
		}},
	},
	"C14": {
		{"typed views on a long list", func(n, pos int) string {
			vals := intsUpTo(n)
			vals[pos] = "odd one out"
			l := at.NewList(vals...)
			if got := l.IntSlice(); len(got) != n-1 || (pos != n-1 && got[n-2] != n-1) || (pos == n-1 && got[n-2] != n-2) {
				return fmt.Sprintf("IntSlice has %d elements", len(got))
			}
			cnt, lastSeen := 0, -1
			ordered := true
			l.ForEachInt(func(v int) {
				cnt++
				if v <= lastSeen {
					ordered = false
				}
				lastSeen = v
			})
			if cnt != n-1 || !ordered {
				return fmt.Sprintf("ForEachInt visited %d elements (ordered=%v)", cnt, ordered)
			}
			idx := 0
			okIdx := true
			l.ForEach(func(i int, v interface{}) {
				if i != idx || !sameVal(v, vals[i]) {
					okIdx = false
				}
				idx++
			})
			if idx != n || !okIdx {
				return fmt.Sprintf("ForEach made %d calls (pairs ok=%v)", idx, okIdx)
			}
			if l.AllInts() || !at.NewList(intsUpTo(n)...).AllInts() || !at.NewList(intsUpTo(n)...).AllNumeric() {
				return "AllInts/AllNumeric wrong on a long list"
			}
			if got := l.FilterStrings(func(string) bool { return true }); got.Count() != 1 {
				return fmt.Sprintf("FilterStrings found %d strings", got.Count())
			}
			if got := l.MapInts(func(v int) interface{} { return v }); got.Count() != n-1 {
				return fmt.Sprintf("MapInts produced %d elements", got.Count())
			}
			if got := l.ReduceInts(0, func(a, v int) int { return a + 1 }); got != n-1 {
				return fmt.Sprintf("ReduceInts folded %d elements", got)
			}
			return ""
		}},
	},
	"C16": {
		{"FormatString of a long list", func(n, pos int) string {
			vals := intsUpTo(n)
			vals[pos] = at.NewObject("k", "v\\")
			l := at.NewList(vals...)
			out := l.FormatString(2)
			canon, ok := jsonref.Reindent(out, 2)
			if out == "" || !ok || canon != out {
				return "not canonically laid out"
			}
			p, err := at.ParseList(out)
			if err != nil || !p.Equals(l) {
				return "FormatString output does not denote the list"
			}
			return ""
		}},
	},
	"C17": {
		{"Sort and Reverse of a long list", func(n, pos int) string {
			ints := make([]interface{}, n)
			strs := make([]interface{}, n)
			flts := make([]interface{}, n)
			for i := range ints {
				ints[i] = (i*7919 + pos) % 1009
				strs[i] = fmt.Sprintf("%04d", (i*104729+pos)%997)
				flts[i] = float64((i*31+pos)%211) / 4
			}
			ints[pos], flts[pos] = math.MinInt, math.Inf(-1)
			for _, vals := range [][]interface{}{ints, strs, flts} {
				l := at.NewList(vals...)
				if l.Sort() != l {
					return "Sort did not return the receiver"
				}
				got := l.Slice()
				if len(got) != n || !sortedSeq(got) || multisetKey(got) != multisetKey(vals) {
					return fmt.Sprintf("Sort of %d %T elements: not sorted or not a permutation", n, vals[0])
				}
			}
			l := at.NewList(ints...)
			l.Reverse()
			for i := 0; i < n; i++ {
				if !sameVal(l.Get(n-1-i), ints[i]) {
					return fmt.Sprintf("Reverse: element %d did not move to %d", i, n-1-i)
				}
			}
			return ""
		}},
	},
	"C18": {
		{"aggregates of a long list", func(n, pos int) string {
			vals := intsUpTo(n)
			vals[pos] = -5
			l := at.NewList(vals...)
			sum := n*(n-1)/2 - pos - 5
			if l.Sum() != float64(sum) || l.IntSum() != sum {
				return fmt.Sprintf("Sum=%v IntSum=%d, want %d", l.Sum(), l.IntSum(), sum)
			}
			if l.Min() != -5 || l.IntMin() != -5 {
				return fmt.Sprintf("Min=%v IntMin=%d, want -5", l.Min(), l.IntMin())
			}
			wantMax := n - 1
			if pos == n-1 {
				wantMax = n - 2
			}
			if l.Max() != float64(wantMax) || l.IntMax() != wantMax {
				return fmt.Sprintf("Max=%v IntMax=%d, want %d", l.Max(), l.IntMax(), wantMax)
			}
			if l.Avg() != float64(sum)/float64(n) {
				return fmt.Sprintf("Avg=%v, want %v", l.Avg(), float64(sum)/float64(n))
			}
			ones := make([]interface{}, n)
			for i := range ones {
				ones[i] = 1
			}
			ones[pos] = -2
			if p := at.NewList(ones...); p.Prod() != -2 || p.IntProd() != -2 {
				return fmt.Sprintf("Prod=%v IntProd=%d, want -2", p.Prod(), p.IntProd())
			}
			return ""
		}},
	},
}

// long strings as value and as key, at the top level and nested (pos 0: in a nested container, pos 1: top level)
func longStringDoc(n, pos int) (at.List, string) {
	str := strings.Repeat("ab", n/2) + "\"q"
	if pos == 0 {
		return at.NewList(1, at.NewObject("k", str, str[:n/2], at.NewList(str)), "end"), str
	}
	return at.NewList(str, 2), str
}

func init() {
	customSizes["round trip with a very long string"] = longStringSizes
	customSizes["String() with a very long string"] = longStringSizes
	customSizes["FormatString with a very long string"] = longStringSizes
	sweepCases["C01"] = append(sweepCases["C01"], sweepCase{"round trip with a very long string", func(n, pos int) string {
		l, _ := longStringDoc(n, pos)
		p, err := at.ParseList(l.String())
		if err != nil {
			return "re-parse failed: " + err.Error()
		}
		if !p.Equals(l) {
			return "re-parsed list does not Equal the original"
		}
		return ""
	}})
	sweepCases["C02"] = append(sweepCases["C02"], sweepCase{"String() with a very long string", func(n, pos int) string {
		l, str := longStringDoc(n, pos)
		s := l.String()
		dec, err := jsonref.Decode(s)
		if !jsonref.Valid(s) || err != nil {
			return fmt.Sprintf("not valid JSON (%v)", err)
		}
		if pos == 1 {
			if arr, ok := dec.([]interface{}); !ok || len(arr) != 2 || arr[0] != str {
				return "the long string does not survive"
			}
		} else if arr, ok := dec.([]interface{}); !ok || len(arr) != 3 || arr[1].(map[string]interface{})["k"] != str {
			return "the nested long string does not survive"
		}
		return ""
	}})
	sweepCases["C16"] = append(sweepCases["C16"], sweepCase{"FormatString with a very long string", func(n, pos int) string {
		l, _ := longStringDoc(n, pos)
		for _, ind := range []int{0, 3} {
			out := l.FormatString(ind)
			if !jsonref.Valid(out) {
				return fmt.Sprintf("FormatString(%d) is not valid JSON (length %d)", ind, len(out))
			}
			canon, ok := jsonref.Reindent(out, ind)
			if !ok || canon != out {
				return fmt.Sprintf("FormatString(%d) is not canonically laid out", ind)
			}
			p, err := at.ParseList(out)
			if err != nil || !p.Equals(l) {
				return fmt.Sprintf("FormatString(%d) does not denote the list", ind)
			}
		}
		return ""
	}})
	sweepCases["C03"] = []sweepCase{{"parsing a document with a very long string literal and long whitespace runs", func(n, pos int) string {
		str := strings.Repeat("x", n)
		ws := strings.Repeat(" ", n/7) + "\n"
		text := "[" + ws + "\"" + str + "\"" + ws + ",{" + ws + "\"" + str[:n/3] + "\"" + ws + ":" + ws + "12" + ws + "}" + ws + "]"
		l, err := at.ParseList(text)
		if err != nil {
			return "rejected: " + err.Error()
		}
		if l.Count() != 2 || l.GetString(0) != str || l.GetObject(1).GetInt(str[:n/3]) != 12 {
			return "parsed content differs"
		}
		return ""
	}}}
	sweepCases["C04"] = []sweepCase{{"truncations of a document with a very long string", func(n, pos int) string {
		l, _ := longStringDoc(n, 0)
		text := l.String()
		for _, cut := range []int{1, n / 2, n, len(text) - n/2, len(text) - 3, len(text) - 1} {
			if cut <= 0 || cut >= len(text) {
				continue
			}
			if p, err := at.ParseList(text[:cut]); err == nil || p != nil {
				return fmt.Sprintf("the prefix of length %d of a %d-byte document was accepted", cut, len(text))
			}
		}
		bad := text[:len(text)/2] + "\xff" + text[len(text)/2:]
		if p, err := at.ParseList(bad); err == nil || p != nil {
			return "ill-formed UTF-8 in the middle of a long string was accepted"
		}
		return ""
	}}}
	sweepCases["C10"] = []sweepCase{
		{"tree-form reads on a long list", func(n, pos int) string {
			vals := intsUpTo(n)
			inner := at.NewObject("k", at.NewList("deep"))
			vals[pos] = inner
			l := at.NewList(vals...)
			if got := l.GetTF(fmt.Sprintf("#%d.k#0", pos)); got != "deep" {
				return fmt.Sprintf("GetTF through index %d returned %v", pos, got)
			}
			if l.TypeOfTF(fmt.Sprintf("#%d", n-1)) == at.TypeUndefined || l.TypeOfTF(fmt.Sprintf("#%d", n)) != at.TypeUndefined {
				return "TypeOfTF wrong at the last index / one past it"
			}
			if l.GetTF(fmt.Sprintf("#%d", pos)) != interface{}(inner) {
				return "GetTF does not return the identical nested object"
			}
			return ""
		}},
	}
	sweepCases["C11"] = []sweepCase{
		{"tree-form writes on a long list", func(n, pos int) string {
			l := at.NewList(intsUpTo(n)...)
			m := intsUpTo(n)
			l.SetTF(fmt.Sprintf("#%d", pos), "w")
			m[pos] = "w"
			l.UnsetTF(fmt.Sprintf("#%d", n/3))
			m = append(m[:n/3], m[n/3+1:]...)
			l.SetTF(fmt.Sprintf("#%d", len(m)+2), "padded")
			m = append(m, nil, nil, "padded")
			if !sameSeq(l.Slice(), m) {
				return "list differs from the slice model after SetTF/UnsetTF/padding SetTF"
			}
			l.SetTF(fmt.Sprintf("#%d.a#1", pos%len(m)), 5)
			got := l.GetTF(fmt.Sprintf("#%d.a#1", pos%len(m)))
			if got != 5 || l.Count() != len(m) || l.GetTF(fmt.Sprintf("#%d.a#0", pos%len(m))) != nil {
				return "nested SetTF through a replaced intermediate went wrong"
			}
			for i := range m {
				if i != pos%len(m) && !sameVal(l.Get(i), m[i]) {
					return fmt.Sprintf("element %d changed although it is not on the path", i)
				}
			}
			return ""
		}},
	}
	sweepCases["C12"] = []sweepCase{
		{"long native slices and maps", func(n, pos int) string {
			src := make([]interface{}, n)
			ints := make([]int, n)
			fl := make([]float64, n)
			mp := map[string]interface{}{}
			for i := range src {
				src[i], ints[i], fl[i] = int16(i), i, float64(i)/2
				mp[fmt.Sprint("k", i)] = uint8(i % 250)
			}
			src[pos] = []interface{}{int8(-1), map[string]interface{}{"z": float32(0.5)}}
			l := at.NewListFrom(src)
			if l.Count() != n || l.TypeOf(n-1) == at.TypeUndefined || (pos != n-1 && l.GetInt(n-1) != n-1) {
				return "NewListFrom([]any) lost or mangled elements"
			}
			if in := l.GetList(pos); in.GetInt(0) != -1 || in.GetObject(1).GetFloat("z") != 0.5 {
				return "nested native value not normalised"
			}
			li, lf, o := at.NewListFrom(ints), at.NewListFrom(fl), at.NewObjectFrom(mp)
			if li.Count() != n || li.GetInt(pos) != pos || lf.GetFloat(pos) != float64(pos)/2 || !lf.AllFloats() || !li.AllInts() {
				return "NewListFrom([]int / []float64) wrong"
			}
			if o.Count() != n || o.GetInt(fmt.Sprint("k", pos)) != pos%250 {
				return "NewObjectFrom(map) wrong"
			}
			return ""
		}},
	}
	sweepCases["C19"] = []sweepCase{
		{"fluent calls on a long derived list", func(n, pos int) string {
			d := newDDL(intsUpTo(n)...)
			var outer at.List = d
			calls := map[string]func() at.List{
				"Insert": func() at.List { return d.Insert(pos, "x") }, "Replace": func() at.List { return d.Replace(pos, "y") },
				"Delete": func() at.List { return d.Delete(pos, 0) }, "SetTF pad": func() at.List { return d.SetTF(fmt.Sprintf("#%d", d.Count()+3), 1) },
				"SetTF nested": func() at.List { return d.SetTF(fmt.Sprintf("#%d.k", pos), 1) }, "UnsetTF": func() at.List { return d.UnsetTF(fmt.Sprintf("#%d", pos)) },
				"Reverse": func() at.List { return d.Reverse() }, "ForEachAsync": func() at.List { return d.ForEachAsync(func(int, interface{}) {}) },
				"ForEachInt": func() at.List { return d.ForEachInt(func(int) {}) }, "Pop": func() at.List { return d.Pop() },
			}
			for _, name := range []string{"Insert", "Replace", "Delete", "SetTF pad", "SetTF nested", "UnsetTF", "Reverse", "ForEachAsync", "ForEachInt", "Pop"} {
				if ret := calls[name](); ret != outer {
					return name + " returned something else than the registered outer value"
				}
			}
			return ""
		}},
	}
	sweepCases["C20"] = []sweepCase{
		{"error line in a long document", func(n, pos int) string {
			var sb strings.Builder
			sb.WriteString("[\n")
			line := 2
			for i := 0; i < n; i++ {
				if i == pos {
					sb.WriteString("  {\"k\": [1,\n 2],\n \"j\" x 3},\n")
					break
				}
				sb.WriteString(fmt.Sprintf("  {\"id\": %d, \"s\": \"v\"},\n", i))
				line++
			}
			want := line + 2
			_, err := at.ParseList(sb.String())
			if err == nil {
				return ""
			}
			m := lineRe.FindStringSubmatch(err.Error())
			if m == nil {
				return ""
			}
			if m[1] != fmt.Sprint(want) {
				return fmt.Sprintf("error %q cites line %s, the unexpected character is on line %d", err.Error(), m[1], want)
			}
			return ""
		}},
	}
}

func boolInt(b bool) int {
	if b {
		return 1
	}
	return 0
}
