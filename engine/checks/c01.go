package checks

import (
	"encoding/json"
	"fmt"
	"math"
	"reflect"
	"strconv"
	"strings"

	at "github.com/DanielSvub/anytype"
	"verif/bfs"
	"verif/ev"
	"verif/jsonref"
	"verif/par"
	"verif/spec"
)

func init() {
	register("C01", "exploration", runC01)
	register("C02", "exploration", runC02)
	register("C16", "exploration", runC16)
}

func docOptsFor(c *ev.Ctx) docOpts {
	o := docOpts{TreeNodes: 5, TreeDepth: 3, Runes: true, RuneContexts: false, StrLen: 2, Floats: true, Ints: true}
	if c.Thorough() {
		o = docOpts{TreeNodes: 6, TreeDepth: 4, Runes: true, RuneContexts: true, StrLen: 3, Floats: true, Ints: true}
	}
	return o
}

func docRule(o docOpts) string {
	return fmt.Sprintf("documents = (A) every list/object-rooted tree with <= %d nodes, depth <= %d over leaves {nil,true,7,-3,1.5,2.0,-0.0,\"s\",\"\"} and keys {\"\",\"k\",\"a b\"}; (B) every float of the %d-point structured float64 grid, every int of the boundary alphabet, every string of <= %d symbols over the 34-symbol escape-class alphabet and every one of the 1 112 064 Unicode scalar values as a one-character string, each as list element / object value / nested element / object key (runes in all contexts: %v). ", o.TreeNodes, o.TreeDepth, len(floatsF()), o.StrLen, o.RuneContexts)
}

func parseRoot(v *spec.V, text string) (interface{}, error) {
	if v.K == spec.Lst {
		l, err := at.ParseList(text)
		if l == nil || reflect.ValueOf(l).IsNil() {
			return nil, errOr(err)
		}
		return l, err
	}
	o, err := at.ParseObject(text)
	if o == nil || reflect.ValueOf(o).IsNil() {
		return nil, errOr(err)
	}
	return o, err
}

func errOr(err error) error {
	if err == nil {
		return fmt.Errorf("nil container and nil error")
	}
	return err
}

func rootEquals(a, b interface{}) bool {
	if la, ok := a.(at.List); ok {
		lb, ok := b.(at.List)
		return ok && la.Equals(lb)
	}
	oa, ok := a.(at.Object)
	if !ok {
		return false
	}
	ob, ok := b.(at.Object)
	return ok && oa.Equals(ob)
}

func rootString(a interface{}) string {
	if l, ok := a.(at.List); ok {
		return l.String()
	}
	return a.(at.Object).String()
}

// ---------------- C01 ----------------

func c01One(v *spec.V) (msg, stage string) {
	if m, st := c01OneBuilt(v, v.Build(), ""); m != "" {
		return m, st
	}
	if v.Depth() >= 2 {
		// the same content as an acyclic GRAPH: equal subtrees are one shared container
		if m, st := c01OneBuilt(v, v.BuildShared(), "shared-subtrees/"); m != "" {
			return m, st
		}
		return afterNestedEdits(v, c01Pass)
	}
	return "", ""
}

func c01OneBuilt(v *spec.V, c interface{}, pfx string) (msg, stage string) {
	if m, st := c01Pass(v, c); m != "" {
		return m, pfx + st
	}
	// serialising the same container a second time must give the same result (no state may leak
	// from one String() call into the next)
	if m, st := c01Pass(v, c); m != "" {
		return "second String() on the same container: " + m, pfx + "second-call/" + st
	}
	return "", ""
}

func c01Pass(v *spec.V, c interface{}) (msg, stage string) {
	var s string
	if p, val := try(func() { s = rootString(c) }); p {
		return fmt.Sprintf("String() panicked on %s: %v", v, val), "string-panic"
	}
	returned := s
	s = strings.Clone(returned)
	defer func() {
		if msg == "" && returned != s {
			msg, stage = fmt.Sprintf("the string returned by String() on %s changed after later library calls: was %+q, now %+q", v, s, strings.Clone(returned)), "result-not-stable"
		}
	}()
	var parsed interface{}
	var err error
	if p, val := try(func() { parsed, err = parseRoot(v, s) }); p {
		return fmt.Sprintf("parsing %+q (String() of %s) panicked: %v", s, v, val), "parse-panic"
	}
	if err != nil {
		return fmt.Sprintf("String() of %s is %+q; parsing it back fails: %v", v, s, err), "parse-error"
	}
	// kinds walk first: it names the exact place and is independent of Equals
	if m := spec.Match(parsed, v); m != "" {
		return fmt.Sprintf("String() of %s is %+q; re-parsed container differs at %s", v, s, m), "kind-walk"
	}
	if !rootEquals(parsed, c) || !rootEquals(c, parsed) {
		return fmt.Sprintf("String() of %s is %+q; re-parsed container does not Equal the original", v, s), "equals"
	}
	s2 := rootString(parsed)
	parsed2, err := parseRoot(v, s2)
	if err != nil {
		return fmt.Sprintf("second generation: %+q (from %s) fails to parse: %v", s2, v, err), "second-gen"
	}
	if !rootEquals(parsed2, parsed) || spec.Match(parsed2, v) != "" {
		return fmt.Sprintf("second generation of %s differs: %+q -> %+q", v, s, s2), "second-gen"
	}
	return "", ""
}

func runC01(c *ev.Ctx) {
	defer sizeSweep(c, "C01")
	o := docOptsFor(c)
	c.Rule(docRule(o) + "Each document: build, String(), Parse*, kind-strict walk through the public API, Equals both ways, second generation; trees with nested containers: the same again after each nested container was edited through its own handle; the returned string must keep its bytes. Non-trivial = distinct serialised text that contains an escape, a non-ASCII byte, a fraction/exponent number or nesting depth >= 2.")
	c.Assume("object key order in String() follows Go map iteration; oracles are order-insensitive", "invalid UTF-8 strings, NaN and infinities are outside the statement and not generated")
	par.Stream(c.Workers, func() bool { return c.Expired() || c.TooMany() }, func(emit func(docCase) bool) { genDocs(o, emit) }, func(w int, d docCase) {
		c.Eval(1)
		msg, stage := c01One(d.V)
		if s := rootStringSafe(d.V); textNontrivial(s) {
			c.Nontrivial(s)
		}
		c.SampleTag(d.Tag, func() interface{} {
			return map[string]string{"space": d.Tag, "spec": d.V.String(), "text": rootStringSafe(d.V)}
		})
		if msg != "" {
			v := d.V
			c.Violate(ev.Violation{Sig: "roundtrip/" + stage + "/" + features(v), Msg: msg, Witness: map[string]interface{}{"spec": v.String(), "space": d.Tag}}, func() string { _, st := c01One(v); return "roundtrip/" + st + "/" + features(v) })
		}
	})
	if c.Expired() {
		c.Cut("deadline reached before the document space was completed")
	}
}

func rootStringSafe(v *spec.V) (s string) {
	defer func() {
		if recover() != nil {
			s = "<panic>"
		}
	}()
	return rootString(v.Build())
}

// ---------------- C02 ----------------

func c02One(v *spec.V) (msg, stage string) {
	c := v.Build()
	for pass := 0; pass < 2; pass++ {
		if m, st := c02Pass(v, c); m != "" {
			if pass == 1 {
				return "second String() on the same container: " + m, "second-call/" + st
			}
			return m, st
		}
	}
	if v.Depth() >= 2 {
		if m, st := c02Pass(v, v.BuildShared()); m != "" {
			return "equal subtrees built as one shared container: " + m, "shared-subtrees/" + st
		}
	}
	// the same document as it comes out of the parser
	if p, err := parseRoot(v, rootString(c)); err == nil {
		if m, st := c02Pass(v, p); m != "" {
			return "container re-parsed from its own String(): " + m, "reparsed/" + st
		}
	}
	return afterNestedEdits(v, c02Pass)
}

func c02Pass(v *spec.V, c interface{}) (msg, stage string) {
	s := rootString(c)
	if !jsonref.Valid(s) {
		return fmt.Sprintf("String() of %s is %+q: not a valid RFC 8259 text (strict recogniser)", v, s), "invalid-json"
	}
	dec, err := jsonref.Decode(s)
	if err != nil {
		return fmt.Sprintf("String() of %s is %+q: encoding/json rejects it: %v", v, s, err), "decoder-rejects"
	}
	if m := jsonref.MatchDecoded(dec, v, "$"); m != "" {
		return fmt.Sprintf("String() of %s is %+q: independent decoder recovers different data: %s", v, s, m), "decoded-differs"
	}
	return "", ""
}

func runC02(c *ev.Ctx) {
	defer sizeSweep(c, "C02")
	o := docOptsFor(c)
	o.RuneContexts = true
	if !c.Thorough() {
		o.StrLen = 2
	}
	c.Rule(docRule(o) + "Each document: String() must pass the harness's strict RFC 8259 recogniser and decode with encoding/json (UseNumber) to the specification tree (ints as integer literals via big.Int, floats via exact big.Rat rounding, strings bytewise); trees with nested containers: the same again after each nested container was edited through its own handle. Non-trivial = distinct serialised text with an escape, non-ASCII byte, fraction/exponent number or nesting >= 2.")
	c.Assume("encoding/json and the harness recogniser are the independent standards-conforming readers", "the sign of a float zero is not compared (RFC 8259 leaves -0 to the reader)")
	par.Stream(c.Workers, func() bool { return c.Expired() || c.TooMany() }, func(emit func(docCase) bool) { genDocs(o, emit) }, func(w int, d docCase) {
		c.Eval(1)
		msg, stage := c02One(d.V)
		if s := rootStringSafe(d.V); textNontrivial(s) {
			c.Nontrivial(s)
		}
		c.SampleTag(d.Tag, func() interface{} {
			return map[string]string{"space": d.Tag, "spec": d.V.String(), "text": rootStringSafe(d.V)}
		})
		if msg != "" {
			v := d.V
			c.Violate(ev.Violation{Sig: "json/" + stage + "/" + features(v), Msg: msg, Witness: map[string]interface{}{"spec": v.String(), "space": d.Tag}}, func() string { _, st := c02One(v); return "json/" + st + "/" + features(v) })
		}
	})
	if c.Expired() {
		c.Cut("deadline reached before the document space was completed")
	}
	// containers that come out of the PARSER: (a) every document re-parsed from its own String() - done inside
	// c02Parsed for the tree sub-space; (b) texts in spellings the lenient parser accepts although they are not
	// standard JSON (Go escapes, raw control characters): the parsed container holds ordinary strings and its
	// String() must again be standard JSON denoting what the container reports through its API
	for _, t := range c02LenientTexts() {
		c.Eval(1)
		c.Nontrivial("lenient/" + t)
		if msg, sig := c02Parsed(t); msg != "" {
			t := t
			c.Violate(ev.Violation{Sig: sig, Msg: msg, Witness: map[string]string{"text": t}}, func() string { _, s := c02Parsed(t); return s })
		}
	}
	// containers reached through HISTORIES (not only freshly built ones): explicit-state search over
	// Set/Unset/Clear/Merge/Pluck resp. Add/Insert/Delete/... programs in which String() is called after
	// every step; only the String() observation is judged here (the rest belongs to C05/C06)
	depth := 5
	if c.Thorough() {
		depth = 7
	}
	osys := c06System(c06Cfg{name: "String() after object histories", keys: []string{"a", "b", "c"}, vals: []interface{}{1, "x", 1.0}, nobj: 2, maxLen: 3, depth: depth})
	lsys := c05System(c05Cfg{name: "String() after list histories", vals: []interface{}{1, "a", 2.0}, nregs: 2, scratchN: 1, maxLen: 4, depth: depth - 1})
	for _, mk := range []func() W{osys.Inits[0], lsys.Inits[0]} {
		_ = mk
	}
	oin, lin := osys.Inits[0], lsys.Inits[0]
	osys.Inits = []func() W{func() W { w := oin(); w.OnlyString = true; return w }}
	lsys.Inits = []func() W{func() W { w := lin(); w.OnlyString = true; return w }}
	if !c.Expired() {
		r1 := bfs.Run(c, osys)
		r2 := bfs.Run(c, lsys)
		c.Set("history_subspace", map[string]interface{}{"object_states": r1.States, "object_depth": r1.DepthCompleted, "list_states": r2.States, "list_depth": r2.DepthCompleted,
			"transitions": c.Trans(), "note": "every transition is followed by String() on every live container, decoded by encoding/json and compared with the reference model"})
		c.Eval(int(c.Trans()))
	}
}

// c02LenientTexts: non-standard spellings the parser accepts, as list element, object value and key.
func c02LenientTexts() []string {
	var out []string
	lits := []string{bs + "x41", bs + "a", bs + "v", bs + "U0001F600", bs + "101", "raw\ttab", "raw\x7fdel", bs + "'", "a" + bs + "x42c", bs + "u0041" + bs + "x42", "plain"}
	for _, l := range lits {
		out = append(out, `["`+l+`"]`, `["`+l+`",1,"`+l+`"]`, `{"k":"`+l+`"}`, `{"`+l+`":1}`, `[{"k":["`+l+`"]}]`, "[ \n \""+l+"\" ]")
	}
	return out
}

// c02Parsed parses a text (list or object root by its first bracket); if the parser accepts it, String() of
// the result must be standard JSON that decodes to exactly what the container reports through its API.
func c02Parsed(text string) (msg, sig string) {
	var cont interface{}
	var err error
	if strings.HasPrefix(strings.TrimSpace(text), "[") {
		cont, err = at.ParseList(text)
	} else {
		cont, err = at.ParseObject(text)
	}
	if err != nil {
		return "", "" // rejected: nothing to serialise
	}
	for pass := 0; pass < 2; pass++ {
		s := rootString(cont)
		if !jsonref.Valid(s) {
			return fmt.Sprintf("container parsed from %+q serialises to %+q: not valid JSON", text, s), "json/parsed-container/invalid-json"
		}
		dec, derr := jsonref.Decode(s)
		if derr != nil {
			return fmt.Sprintf("container parsed from %+q serialises to %+q: %v", text, s, derr), "json/parsed-container/decoder-rejects"
		}
		if why := matchDecodedReal(dec, cont); why != "" {
			return fmt.Sprintf("container parsed from %+q serialises to %+q which denotes other data than the container holds: %s", text, s, why), "json/parsed-container/decoded-differs"
		}
	}
	return "", ""
}

// matchDecodedReal compares an encoding/json (UseNumber) result with a real container read through its API.
func matchDecodedReal(dec interface{}, real interface{}) string {
	switch x := real.(type) {
	case at.List:
		arr, ok := dec.([]interface{})
		if !ok || len(arr) != x.Count() {
			return fmt.Sprintf("list of %d vs %v", x.Count(), dec)
		}
		for i := range arr {
			if why := matchDecodedReal(arr[i], x.Get(i)); why != "" {
				return fmt.Sprintf("#%d: %s", i, why)
			}
		}
	case at.Object:
		m, ok := dec.(map[string]interface{})
		if !ok || len(m) != x.Count() {
			return fmt.Sprintf("object of %d vs %v", x.Count(), dec)
		}
		for k, dv := range m {
			if !x.KeyExists(k) {
				return fmt.Sprintf("key %+q not in the container", k)
			}
			if why := matchDecodedReal(dv, x.Get(k)); why != "" {
				return fmt.Sprintf(".%s: %s", k, why)
			}
		}
	case string:
		if s, ok := dec.(string); !ok || s != x {
			return fmt.Sprintf("string %+q vs %v", x, dec)
		}
	case nil:
		if dec != nil {
			return fmt.Sprintf("nil vs %v", dec)
		}
	case bool:
		if b, ok := dec.(bool); !ok || b != x {
			return fmt.Sprintf("%v vs %v", x, dec)
		}
	case int:
		if n, ok := dec.(json.Number); !ok || string(n) != strconv.Itoa(x) {
			return fmt.Sprintf("int %d vs %v", x, dec)
		}
	case float64:
		n, ok := dec.(json.Number)
		if !ok {
			return fmt.Sprintf("float %v vs %v", x, dec)
		}
		if f, good := jsonref.NumberFloat(string(n)); !good || f != x {
			return fmt.Sprintf("float %v vs literal %s", x, n)
		}
	}
	return ""
}

// ---------------- C16 ----------------

var c16Indents = []int{math.MinInt, -2, -1, 0, 1, 2, 3, 4, 5, 6, 7, 8, 9, 10, 11, 12, math.MaxInt}

func formatRoot(c interface{}, n int) string {
	if l, ok := c.(at.List); ok {
		return l.FormatString(n)
	}
	return c.(at.Object).FormatString(n)
}

func c16One(v *spec.V, n int) (msg, stage string) {
	c := v.Build()
	if m, st := c16Pass(v, c, n); m != "" {
		return m, st
	}
	if n == 2 || n == 10 {
		if m, st := c16Pass(v, c, n); m != "" {
			return "second FormatString() on the same container: " + m, "second-call/" + st
		}
		if v.Depth() >= 2 {
			if m, st := c16Pass(v, v.BuildShared(), n); m != "" {
				return "equal subtrees built as one shared container: " + m, "shared-subtrees/" + st
			}
			if n == 2 {
				return afterNestedEdits(v, func(v2 *spec.V, c2 interface{}) (string, string) { return c16Pass(v2, c2, n) })
			}
		}
	}
	return "", ""
}

// c16Disturb makes two further FormatString calls on unrelated fresh small containers.
func c16Disturb(n int) {
	_ = at.NewList("disturb", 1).FormatString(n)
	_ = at.NewObject("d", at.NewList(true)).FormatString(n)
}

func c16Pass(v *spec.V, c interface{}, n int) (msg, stage string) {
	var out string
	p, _ := try(func() { out = formatRoot(c, n) })
	if n < 0 || n > 10 {
		if !p {
			return fmt.Sprintf("FormatString(%d) on %s did not panic (returned %+q)", n, v, out), "no-panic"
		}
		if m := spec.Match(c, v); m != "" {
			return fmt.Sprintf("panicking FormatString(%d) modified the container: %s", n, m), "modified"
		}
		return "", ""
	}
	if p {
		return fmt.Sprintf("FormatString(%d) on %s panicked", n, v), "panic"
	}
	// a Go string is a value: what FormatString returned must not change when the library is called again
	// (seeded change C16-10a: the result aliases a pooled buffer that the next call overwrites). Everything
	// below judges a private copy taken at once; the returned string itself is compared with it at the end,
	// after further FormatString calls on two other containers.
	returned := out
	out = strings.Clone(returned)
	defer func() {
		if msg != "" {
			return
		}
		if n == 0 || n == 2 {
			try(func() { c16Disturb(n) })
		}
		if returned != out {
			msg, stage = fmt.Sprintf("the string returned by FormatString(%d) on %s changed after later FormatString calls: was %+q, now %+q", n, v, out, strings.Clone(returned)), "result-not-stable"
		}
	}()
	if out == "" {
		return fmt.Sprintf("FormatString(%d) on %s returned the empty string (String() = %+q)", n, v, rootString(c)), "empty"
	}
	if !jsonref.Valid(out) {
		return fmt.Sprintf("FormatString(%d) on %s is not valid JSON: %+q", n, v, out), "invalid-json"
	}
	dec, err := jsonref.Decode(out)
	if err != nil {
		return fmt.Sprintf("FormatString(%d) on %s: encoding/json rejects %+q: %v", n, v, out, err), "decoder-rejects"
	}
	if m := jsonref.MatchDecoded(dec, v, "$"); m != "" {
		return fmt.Sprintf("FormatString(%d) on %s denotes different data: %s (text %+q)", n, v, m, out), "decoded-differs"
	}
	if s := rootString(c); jsonref.Valid(s) {
		ds, err := jsonref.Decode(s)
		if err == nil && !reflect.DeepEqual(ds, dec) {
			return fmt.Sprintf("FormatString(%d) and String() of %s denote different data: %+q vs %+q", n, v, out, s), "differs-from-string"
		}
	}
	canon, ok := jsonref.Reindent(out, n)
	if !ok || canon != out {
		return fmt.Sprintf("FormatString(%d) on %s is not canonically laid out:\n got  %+q\n want %+q", n, v, out, canon), "layout"
	}
	if m := spec.Match(c, v); m != "" {
		return fmt.Sprintf("FormatString(%d) modified the container: %s", n, m), "modified"
	}
	return "", ""
}

func runC16(c *ev.Ctx) {
	defer sizeSweep(c, "C16")
	o := docOptsFor(c)
	o.Floats, o.Ints = true, true
	o.RuneContexts = false
	runeIndents := []int{0, 2, 10}
	c.Rule(docRule(o) + fmt.Sprintf("Each tree / float / int / multi-symbol-string document x every indent of %v; each per-code-point document x indents %v (valid) and {-1, 11} (must panic). FormatString must be non-empty, valid JSON, decode to the specification tree and to what String() denotes, and be reproduced byte for byte by the harness's canonical re-indenter; the returned string must keep its bytes across two later FormatString calls on other containers (indents 0, 2); trees with nested containers are re-formatted after an edit of each nested container through its own handle (indent 2). Non-trivial = distinct (output text) that spans more than one line or contains an escape/non-ASCII byte.", c16Indents, runeIndents))
	c.Assume("canonical layout = one element per line, n spaces per level, '\"key\": value', empty containers inline, no trailing newline (what a standard JSON indenter produces)")
	par.Stream(c.Workers, func() bool { return c.Expired() || c.TooMany() }, func(emit func(docCase) bool) { genDocs(o, emit) }, func(w int, d docCase) {
		inds := c16Indents
		if len(d.Tag) >= 4 && d.Tag[:4] == "rune" {
			inds = []int{-1, 0, 2, 10, 11}
		}
		for _, n := range inds {
			c.Eval(1)
			msg, stage := c16One(d.V, n)
			if n >= 0 && n <= 10 {
				var out string
				try(func() { out = formatRoot(d.V.Build(), n) })
				if textNontrivial(out) || containsNL(out) {
					c.Nontrivial(out)
				}
			}
			if n == 2 {
				c.SampleTag(d.Tag, func() interface{} {
					var out string
					try(func() { out = formatRoot(d.V.Build(), n) })
					return map[string]interface{}{"space": d.Tag, "spec": d.V.String(), "indent": n, "text": out}
				})
			}
			if msg != "" {
				v, n := d.V, n
				ind := "valid-indent"
				if n < 0 || n > 10 {
					ind = fmt.Sprintf("indent=%d", n)
				}
				c.Violate(ev.Violation{Sig: "format/" + stage + "/" + ind + "/" + features(v), Msg: msg, Witness: map[string]interface{}{"spec": v.String(), "indent": n, "space": d.Tag}}, func() string { _, st := c16One(v, n); return "format/" + st + "/" + ind + "/" + features(v) })
			}
		}
	})
	if c.Expired() {
		c.Cut("deadline reached before the document space was completed")
		return
	}
	// FormatString on containers reached through histories (observe at two indents, mutate, observe again):
	// explicit-state search in which only the FormatString observations are judged
	d := 5
	if c.Thorough() {
		d = 6
	}
	r1 := focusedListHistories(c, "FormatString within list histories", "format", []interface{}{1, "a", 2.5}, d, nil)
	r2 := focusedObjectHistories(c, "FormatString within object histories", "format", d)
	c.Set("history_subspace", map[string]interface{}{"list_states": r1.States, "list_depth": r1.DepthCompleted, "object_states": r2.States, "object_depth": r2.DepthCompleted, "transitions": c.Trans(),
		"note": "operation alphabet of C05/C06 plus an optional 'call every observer' operation; FormatString(2) and FormatString(4) are decoded and compared with the reference model after every transition"})
	c.Eval(int(c.Trans()))
}

func containsNL(s string) bool {
	for i := 0; i < len(s); i++ {
		if s[i] == '\n' {
			return true
		}
	}
	return false
}
