package checks

import (
	"fmt"
	"math"
	"reflect"
	"strconv"
	"strings"

	at "github.com/DanielSvub/anytype"
)

// try runs f, reporting whether it panicked and with what.
func try(f func()) (panicked bool, val interface{}) {
	defer func() {
		if r := recover(); r != nil {
			panicked, val = true, r
		}
	}()
	f()
	return
}

// snapList is the public-API observation of a list: Get(i) for every i (containers by handle).
func snapList(l at.List) []interface{} {
	n := l.Count()
	out := make([]interface{}, n)
	for i := 0; i < n; i++ {
		out[i] = l.Get(i)
	}
	return out
}

// sameVal compares two observed values: scalars by dynamic type and value (floats by bit
// pattern), containers by handle identity.
func sameVal(a, b interface{}) bool {
	if a == nil || b == nil {
		return a == nil && b == nil
	}
	if reflect.TypeOf(a) != reflect.TypeOf(b) {
		return false
	}
	if fa, ok := a.(float64); ok {
		return math.Float64bits(fa) == math.Float64bits(b.(float64))
	}
	return a == b
}

func sameSeq(a, b []interface{}) bool {
	if len(a) != len(b) {
		return false
	}
	for i := range a {
		if !sameVal(a[i], b[i]) {
			return false
		}
	}
	return true
}

// show renders an observed value for messages.
func show(v interface{}) string {
	switch x := v.(type) {
	case nil:
		return "nil"
	case float64:
		return "float(" + strconv.FormatFloat(x, 'g', -1, 64) + ")"
	case int:
		return "int(" + strconv.Itoa(x) + ")"
	case string:
		return strconv.QuoteToASCII(x)
	case bool:
		return strconv.FormatBool(x)
	case at.List:
		return fmt.Sprintf("List@%p%s", x, safeString(func() string { return x.String() }))
	case at.Object:
		return fmt.Sprintf("Object@%p%s", x, safeString(func() string { return x.String() }))
	default:
		return fmt.Sprintf("%T(%v)", v, v)
	}
}

func safeString(f func() string) (s string) {
	defer func() {
		if r := recover(); r != nil {
			s = "<panic>"
		}
	}()
	return f()
}

func showSeq(a []interface{}) string {
	var sb strings.Builder
	sb.WriteString("[")
	for i, v := range a {
		if i > 0 {
			sb.WriteString(", ")
		}
		sb.WriteString(show(v))
	}
	sb.WriteString("]")
	return sb.String()
}

// digits decodes idx into n base-b digits (little endian).
func digits(idx int64, b, n int, out []int) []int {
	out = out[:0]
	for i := 0; i < n; i++ {
		out = append(out, int(idx%int64(b)))
		idx /= int64(b)
	}
	return out
}

// powSum returns b^lo + ... + b^hi and the per-length offsets.
func powSum(b, lo, hi int) (total int64, offs []int64) {
	p := int64(1)
	for i := 0; i < lo; i++ {
		p *= int64(b)
	}
	for n := lo; n <= hi; n++ {
		offs = append(offs, total)
		total += p
		p *= int64(b)
	}
	return
}

// decodeLen maps a flat index to (length, index within that length).
func decodeLen(i int64, lo int, offs []int64) (n int, rest int64) {
	k := len(offs) - 1
	for k > 0 && offs[k] > i {
		k--
	}
	return lo + k, i - offs[k]
}

// deepSame compares two observed values structurally through the public API: scalars by
// dynamic type and value with floats by bit pattern (so NaN equals itself), lists
// position by position, objects key by key.
func deepSame(a, b interface{}) bool {
	switch x := a.(type) {
	case at.List:
		y, ok := b.(at.List)
		if !ok || x.Count() != y.Count() {
			return false
		}
		for i := 0; i < x.Count(); i++ {
			if !deepSame(x.Get(i), y.Get(i)) {
				return false
			}
		}
		return true
	case at.Object:
		y, ok := b.(at.Object)
		if !ok || x.Count() != y.Count() {
			return false
		}
		same := true
		x.ForEach(func(k string, v interface{}) {
			if !y.KeyExists(k) || !deepSame(v, y.Get(k)) {
				same = false
			}
		})
		return same
	default:
		return sameVal(a, b)
	}
}
