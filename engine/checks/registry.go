// Package checks holds one harness per property. Each registers itself here.
package checks

import "verif/ev"

type Check struct {
	ID    string
	Level string
	Run   func(c *ev.Ctx)
}

var Registry = map[string]*Check{}

func register(id, level string, run func(c *ev.Ctx)) {
	Registry[id] = &Check{ID: id, Level: level, Run: run}
}
