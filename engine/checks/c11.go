package checks

import (
	"fmt"
	"strconv"
	"strings"

	at "github.com/DanielSvub/anytype"
	"verif/bfs"
	"verif/ev"
	"verif/model"
	"verif/spec"
)

func init() { register("C11", "model_checking", runC11) }

// worldFromSpec builds the real tree and the model heap side by side (every container bound).
func worldFromSpec(v *spec.V, nregs int) *model.World { return worldFromSpecRoute(v, nregs, 0) }

// construction routes: the same logical tree reached through different library operations
var routeNames = []string{"Add/Set", "", "every list is a SubList(0,0) result", "every list is a Concat result", "one-element lists by NewListOf(x,1)",
	"parsed from its own String()", "a Clone of a Clone", "every object is a Merge result", "every object is a Pluck result",
	"runs of equal scalars built by NewListOf (one shared field object per run), pieces joined by Concat", "nested containers are user types embedding List/Object (derived structures)"}

func worldFromSpecRoute(v *spec.V, nregs int, route int) *model.World {
	w := model.NewWorld(nregs)
	if route == 5 || route == 6 {
		var real interface{} = v.Build()
		if route == 5 {
			if l, ok := real.(at.List); ok {
				p, err := at.ParseList(l.String())
				if err != nil {
					panic(err)
				}
				real = p
			} else {
				p, err := at.ParseObject(real.(at.Object).String())
				if err != nil {
					panic(err)
				}
				real = p
			}
		} else {
			if l, ok := real.(at.List); ok {
				real = l.Clone().Clone()
			} else {
				real = real.(at.Object).Clone().Clone()
			}
		}
		w.Regs[0] = w.Adopt(real)
		return w
	}
	depthNow := -1
	var build func(v *spec.V) (interface{}, interface{})
	build = func(v *spec.V) (interface{}, interface{}) {
		depthNow++
		defer func() { depthNow-- }()
		switch v.K {
		case spec.Lst:
			m, r := model.NewL(), at.NewList()
			for _, e := range v.L {
				me, re := build(e)
				m.E = append(m.E, me)
				r.Add(re)
			}
			switch {
			case route == 9:
				nl := at.NewList()
				for i := 0; i < len(m.E); {
					j := i
					_, isC := m.E[i].(*model.L)
					_, isO := m.E[i].(*model.O)
					for j < len(m.E) && !isC && !isO && model.Same(m.E[j], m.E[i]) {
						j++
					}
					if j == i {
						nl = nl.Concat(at.NewList(r.Get(i)))
						i++
						continue
					}
					nl = nl.Concat(at.NewListOf(r.Get(i), j-i))
					i = j
				}
				r = nl
			case route == 10 && depthNow > 0:
				d := &DL{List: r, tag: "nested"}
				d.Init(d)
				r = d
			case route == 2:
				r = r.SubList(0, 0)
			case route == 3:
				r = at.NewList().Concat(r)
			case route == 4 && len(v.L) == 1:
				r = at.NewListOf(r.Get(0), 1)
			}
			w.Bind(m, r)
			return m, r
		case spec.Obj:
			m, r := model.NewO(), at.NewObject()
			for _, e := range v.KV {
				me, re := build(e.V)
				m.M[e.K] = me
				r.Set(e.K, re)
			}
			switch route {
			case 10:
				if depthNow > 0 {
					d := &DO{Object: r, tag: "nested"}
					d.Init(d)
					r = d
				}
			case 7:
				r = at.NewObject().Merge(r)
			case 8:
				r = r.Pluck(r.Keys().StringSlice()...)
			}
			w.Bind(m, r)
			return m, r
		}
		return v.Native(), v.Native()
	}
	m, _ := build(v)
	w.Regs[0] = m
	return w
}

type tfOp struct {
	Unset bool
	Path  string
	V     vref // 0 scalar index, 3 fresh list, 4 fresh object, 5 existing nested container #I
}

var c11Scalars = []interface{}{nil, 2, "t"}

func c11Label(o tfOp) string {
	if o.Unset {
		return fmt.Sprintf("UnsetTF(%q)", o.Path)
	}
	v := ""
	switch o.V.K {
	case 0:
		v = valName(c11Scalars[o.V.I])
	case 3:
		v = "NewList()"
	case 4:
		v = "NewObject()"
	case 5:
		v = fmt.Sprintf("<container #%d of the tree>", o.V.I)
	}
	return fmt.Sprintf("SetTF(%q,%s)", o.Path, v)
}

// reference semantics of SetTF on the model heap; returns the containers created.
func modelSetTF(root interface{}, segs []tfSeg, v interface{}) {
	cur := root
	for i, s := range segs {
		last := i == len(segs)-1
		var child interface{}
		if !last {
			// the kind the next segment requires
			want := segs[i+1].Sigil
			var existing interface{}
			switch c := cur.(type) {
			case *model.O:
				existing = c.M[s.Body]
			case *model.L:
				idx, _ := canonicalIndex(s.Body)
				if idx < len(c.E) {
					existing = c.E[idx]
				}
			}
			if want == '.' {
				if o, ok := existing.(*model.O); ok && o != nil {
					child = o
				} else {
					child = model.NewO()
				}
			} else {
				if l, ok := existing.(*model.L); ok && l != nil {
					child = l
				} else {
					child = model.NewL()
				}
			}
		} else {
			child = v
		}
		switch c := cur.(type) {
		case *model.O:
			c.M[s.Body] = child
		case *model.L:
			idx, _ := canonicalIndex(s.Body)
			for len(c.E) < idx {
				c.E = append(c.E, nil)
			}
			if idx == len(c.E) {
				c.E = append(c.E, child)
			} else {
				c.E[idx] = child
			}
		}
		cur = child
	}
}

// modelResolve navigates the model; ok=false if some step cannot be taken.
func modelResolve(root interface{}, segs []tfSeg) (parent interface{}, ok bool) {
	cur := root
	for i, s := range segs {
		last := i == len(segs)-1
		switch c := cur.(type) {
		case *model.O:
			if s.Sigil != '.' {
				return nil, false
			}
			nx, has := c.M[s.Body]
			if last {
				return c, true // Unset of a missing key is a no-op: still "unchanged"
			}
			if !has {
				return nil, false
			}
			cur = nx
		case *model.L:
			idx, good := canonicalIndex(s.Body)
			if s.Sigil != '#' || !good || idx >= len(c.E) {
				return nil, false
			}
			if last {
				return c, true
			}
			cur = c.E[idx]
		default:
			return nil, false
		}
	}
	return nil, false
}

func nestedContainers(w *model.World) []interface{} {
	all := w.Containers()
	if len(all) <= 1 {
		return nil
	}
	return all[1:]
}

type c11Cfg struct {
	name       string
	segs       []string // segment alphabet for Set paths
	maxSegs    int
	depth      int
	values     []vref
	badUnset   []string
	startNodes int
	startDepth int
	keys       []string // keys of the start trees (default a, b)
	routes     []int    // construction routes of the start trees (default: plain Add/Set)
}

func c11Paths(segs []string, k int, rootSigil byte) []string {
	var out []string
	total, offs := powSum(len(segs), 1, k)
	for i := int64(0); i < total; i++ {
		n, rest := decodeLen(i, 1, offs)
		dg := digits(rest, len(segs), n, nil)
		var sb strings.Builder
		for _, d := range dg {
			sb.WriteString(segs[d])
		}
		p := sb.String()
		if p[0] == rootSigil {
			out = append(out, p)
		}
	}
	return out
}

func c11Ops(cfg c11Cfg) func(w W) []tfOp {
	listPaths := c11Paths(cfg.segs, cfg.maxSegs, '#')
	objPaths := c11Paths(cfg.segs, cfg.maxSegs, '.')
	return func(w W) []tfOp {
		var ops []tfOp
		root := w.Regs[0]
		paths := objPaths
		if _, ok := root.(*model.L); ok {
			paths = listPaths
		}
		nested := nestedContainers(w)
		for _, p := range paths {
			segs, _ := tfTokenize(p)
			for _, v := range cfg.values {
				if v.K == 5 {
					if v.I >= len(nested) {
						continue
					}
					// acyclicity: the stored container must not reach an existing container on the path
					x := nested[v.I]
					cyc := false
					cur := root
					for _, s := range segs {
						if cur == nil {
							break
						}
						if model.Reaches(x, cur) {
							cyc = true
							break
						}
						switch c := cur.(type) {
						case *model.O:
							cur = c.M[s.Body]
						case *model.L:
							idx, _ := canonicalIndex(s.Body)
							if idx < len(c.E) {
								cur = c.E[idx]
							} else {
								cur = nil
							}
						default:
							cur = nil
						}
						if _, isO := cur.(*model.O); !isO {
							if _, isL := cur.(*model.L); !isL {
								cur = nil
							}
						}
					}
					if cyc {
						continue
					}
				}
				ops = append(ops, tfOp{Path: p, V: v})
			}
			ops = append(ops, tfOp{Unset: true, Path: p})
		}
		for _, p := range cfg.badUnset {
			ops = append(ops, tfOp{Unset: true, Path: p})
		}
		return ops
	}
}

func c11Apply(w W, o tfOp) (msg, sig string) {
	root := w.Regs[0]
	segs, tok := tfTokenize(o.Path)
	wf := tok && tfWellFormed(segs)
	call := func(f func(l at.List) interface{}, g func(ob at.Object) interface{}) (ret interface{}, pn bool, pv interface{}) {
		pn, pv = try(func() {
			if m, ok := root.(*model.L); ok {
				ret = f(w.RL(m))
			} else {
				ret = g(w.RO(root.(*model.O)))
			}
		})
		return
	}
	rootReal := w.ToReal(root)
	if o.Unset {
		ret, pn, _ := call(func(l at.List) interface{} { return l.UnsetTF(o.Path) }, func(ob at.Object) interface{} { return ob.UnsetTF(o.Path) })
		parent, ok := interface{}(nil), false
		if wf {
			parent, ok = modelResolve(root, segs)
		}
		if ok {
			// resolvable: exactly the addressed field / element is removed
			last := segs[len(segs)-1]
			switch c := parent.(type) {
			case *model.O:
				delete(c.M, last.Body)
			case *model.L:
				idx, _ := canonicalIndex(last.Body)
				c.E = append(c.E[:idx], c.E[idx+1:]...)
			}
			if pn {
				return fmt.Sprintf("UnsetTF(%q) panicked on a resolvable path", o.Path), "unsettf/panic"
			}
			if ret != rootReal {
				return fmt.Sprintf("UnsetTF(%q) did not return the receiver", o.Path), "unsettf/return"
			}
		}
		// unresolvable: tree must be unchanged (panic or not): the model is left as it is
		return "", ""
	}
	// SetTF
	var mv, rv interface{}
	switch o.V.K {
	case 0:
		mv, rv = c11Scalars[o.V.I], c11Scalars[o.V.I]
	case 3:
		m, r := model.NewL(), at.NewList()
		w.Bind(m, r)
		mv, rv = m, r
	case 4:
		m, r := model.NewO(), at.NewObject()
		w.Bind(m, r)
		mv, rv = m, r
	case 5:
		mv = nestedContainers(w)[o.V.I]
		rv = w.ToReal(mv)
	}
	ret, pn, pv := call(func(l at.List) interface{} { return l.SetTF(o.Path, rv) }, func(ob at.Object) interface{} { return ob.SetTF(o.Path, rv) })
	if pn {
		return fmt.Sprintf("SetTF(%q, %s) panicked on %s: %v", o.Path, valName(mv), model.Show(root), pv), "settf/panic/" + c11Situation(root, segs)
	}
	if ret != rootReal {
		return fmt.Sprintf("SetTF(%q) did not return the receiver", o.Path), "settf/return"
	}
	modelSetTF(root, segs, mv)
	w.AdoptUnbound() // intermediates created by the library get their model counterparts (also on replay)
	// GetTF(p) yields v
	var got interface{}
	if gp, gv := try(func() { got = getTF(rootReal, o.Path) }); gp {
		return fmt.Sprintf("after SetTF(%q, %s) GetTF(%q) panics: %v", o.Path, valName(mv), o.Path, gv), "settf/get-panics"
	}
	if !sameReal(w, got, mv) {
		return fmt.Sprintf("after SetTF(%q, %s) GetTF returns %s", o.Path, valName(mv), show(got)), "settf/get-differs"
	}
	return "", ""
}

// c11Situation classifies what the path meets in the tree (for narrow violation signatures).
func c11Situation(root interface{}, segs []tfSeg) string {
	cur := root
	for i, s := range segs {
		if i == len(segs)-1 {
			return "leaf"
		}
		want := segs[i+1].Sigil
		var existing interface{}
		exists := false
		switch c := cur.(type) {
		case *model.O:
			existing, exists = c.M[s.Body]
		case *model.L:
			idx, _ := canonicalIndex(s.Body)
			if idx < len(c.E) {
				existing, exists = c.E[idx], true
			}
		}
		recv := "object"
		if _, ok := cur.(*model.L); ok {
			recv = "list"
		}
		next := "object"
		if want == '#' {
			next = "list"
		}
		if !exists {
			cur = nil
			if i+1 < len(segs) {
				return recv + "-receiver/next-" + next + "/missing"
			}
		}
		switch e := existing.(type) {
		case *model.O:
			if want != '.' {
				return recv + "-receiver/next-" + next + "/wrong-kind-object"
			}
			cur = e
		case *model.L:
			if want != '#' {
				return recv + "-receiver/next-" + next + "/wrong-kind-list"
			}
			cur = e
		default:
			if exists {
				return recv + "-receiver/next-" + next + "/wrong-kind-scalar-or-nil"
			}
		}
	}
	return "other"
}

func c11System(cfg c11Cfg) *bfs.System[W, tfOp] {
	var inits []func() W
	keys := cfg.keys
	if keys == nil {
		keys = []string{"a", "b"}
	}
	en := spec.NewEnum([]*spec.V{spec.NilV, spec.I(1), spec.S("s")}, keys)
	routes := cfg.routes
	if routes == nil {
		routes = []int{0}
	}
	en.Containers(cfg.startNodes, cfg.startDepth, func(v *spec.V) bool {
		for _, route := range routes {
			route := route
			inits = append(inits, func() W {
				w := worldFromSpecRoute(v, 1, route)
				w.Tag = fmt.Sprintf("route%d|", route)
				w.ProbeKeys = append([]string{"c"}, keys...)
				w.ProbeVals = []interface{}{nil, 1, 2}
				return w
			})
		}
		return true
	})
	return &bfs.System[W, tfOp]{Name: cfg.name, Inits: inits, Ops: c11Ops(cfg), Apply: c11Apply, Label: c11Label,
		Check: func(w W) (string, string) { return w.Check() }, Key: func(w W) string { return w.Key() },
		MaxDepth: cfg.depth, Describe: func(w W) string { return w.Describe() }}
}

func runC11(c *ev.Ctx) {
	defer sizeSweep(c, "C11")
	allVals := []vref{{0, 0}, {0, 1}, {0, 2}, {3, 0}, {4, 0}, {5, 0}, {5, 1}}
	bad := []string{"", "a", ".", "#", "..a", ".a.", ".a#", "#x", "#-1", "#0.", "#0#", ".a..b", "#0##1", "a.b", "0", ".a#x", "#1x"}
	segsFull := []string{".a", ".b", "#0", "#1", "#2", "#3", "#5"}
	cfgs := []c11Cfg{
		{name: "one write from every tree (<=4 nodes), paths of <=3 segments", segs: segsFull, maxSegs: 3, depth: 1, values: allVals, badUnset: bad, startNodes: 4, startDepth: 3},
		{name: "sequences of writes from small trees (<=2 nodes), paths of <=2 segments", segs: []string{".a", ".b", "#0", "#1", "#3"}, maxSegs: 2, depth: 3, values: []vref{{0, 1}, {3, 0}, {4, 0}, {5, 0}}, badUnset: bad[:6], startNodes: 2, startDepth: 2},
	}
	e9 := string(rune(0xE9))
	cfgs = append(cfgs,
		c11Cfg{name: "two writes (unset/set) from every tree (<=4 nodes), paths of <=2 segments with padding indices", segs: []string{".a", "#0", "#1", "#3", "#4"}, maxSegs: 2, depth: 2, values: []vref{{0, 1}}, startNodes: 4, startDepth: 3},
		c11Cfg{name: "one write, multi-byte and multi-character keys", segs: []string{"." + e9, ".ab", "#0", "#1", "#2"}, maxSegs: 3, depth: 1, values: []vref{{0, 1}, {3, 0}, {5, 0}}, badUnset: bad[:4], startNodes: 4, startDepth: 3, keys: []string{e9, "ab"}},
		c11Cfg{name: "one write, keys that differ only in leading/trailing white space", segs: []string{".a", ".a ", ". a", ".a\t", "#0", "#1"}, maxSegs: 2, depth: 1, values: []vref{{0, 1}, {3, 0}}, badUnset: []string{".a\n", " .a", ".a .b "}, startNodes: 3, startDepth: 3, keys: []string{"a", "a ", " a"}})
	cfgs = append(cfgs,
		c11Cfg{name: "one write, all-digit keys next to list indices (a path whose last separator does not fit the container it reaches must leave the tree alone)", segs: []string{".a", ".0", ".1", "#0", "#1"}, maxSegs: 3, depth: 1, values: []vref{{0, 1}}, startNodes: 4, startDepth: 3, keys: []string{"a", "0", "1"}})
	cfgs = append(cfgs,
		c11Cfg{name: "one write, trees that also hold keys containing a separator (a.b, a#0: legal entries no path can address, they must stay untouched)", segs: []string{".a", ".b", "#0", "#1"}, maxSegs: 3, depth: 1, values: []vref{{0, 1}, {3, 0}}, startNodes: 4, startDepth: 3, keys: []string{"a", "a.b", "a#0"}})
	cfgs = append(cfgs,
		c11Cfg{name: "one write, lists whose equal elements share one field object (NewListOf runs) or are SubList/Concat results", segs: []string{".a", "#0", "#1", "#2", "#4"}, maxSegs: 2, depth: 1, values: []vref{{0, 1}, {0, 2}, {3, 0}}, startNodes: 4, startDepth: 3, routes: []int{9, 2, 3}})
	if c.Thorough() {
		cfgs[0].startNodes = 5
		cfgs[1].depth = 4
		cfgs = append(cfgs, c11Cfg{name: "one write, paths of <=4 segments, trees <=3 nodes", segs: []string{".a", ".b", "#0", "#1", "#3"}, maxSegs: 4, depth: 1, values: []vref{{0, 1}, {3, 0}, {5, 0}}, startNodes: 3, startDepth: 3})
	}
	c.Rule("explicit-state BFS on the real code: start states = every list/object-rooted tree over leaves {nil,1,\"s\"}, keys {a,b}; transitions = SetTF(p,v) for every well-formed path p over segments {.a,.b,#0,#1,#2,#3,#5} whose leading sigil fits the root and v in {nil, 2, \"t\", a fresh list, a fresh object, a container already elsewhere in the tree (aliasing, acyclic only)}, UnsetTF(p) for every such p and for " + strconv.Itoa(len(bad)) + " malformed paths. Reference functions setTF/unsetTF on the model heap implement the statement literally (create missing / replace wrong-kind intermediates, pad with nil, reuse right-kind intermediates, leaf assignment; unset removes the field or shifts the list). After each write: SetTF did not panic and returned the receiver, GetTF(p) yields v (identical handle for containers), and the whole tree equals the model including the identity of every container that was not replaced (frame condition + reuse-not-copy).")
	c.Assume("paths whose leading sigil does not fit the root kind are outside the statement and not generated for SetTF", "UnsetTF on an unresolvable path may panic or not; only 'tree unchanged' is required", "values that would make the tree cyclic are not generated")
	for _, cfg := range cfgs {
		if c.Expired() {
			c.Cut("scenario " + cfg.name + " not started (deadline)")
			continue
		}
		res := bfs.Run(c, c11System(cfg))
		c.Set("scenario/"+cfg.name, map[string]interface{}{"states": res.States, "depth_completed": res.DepthCompleted, "depth_bound": cfg.depth, "state_space_closed": res.Exhausted})
	}
}
