package checks

import (
	"math"
	"strings"
	"unicode/utf8"

	"verif/spec"
)

// ---- shared scalar alphabets (DESIGN.md section 3) ----

// symS is the 34-symbol class-representative alphabet for multi-symbol strings.
var symS = runeStrings(0x00, 0x01, 0x07, 0x08, 0x09, 0x0A, 0x0B, 0x0C, 0x0D, 0x1F, 0x20, 0x22, 0x5C, 0x2F, 0x27, 0x61, 0x75, 0x78, 0x7F,
	0x80, 0xA0, 0xE9, 0x2028, 0x2029, 0xD7FF, 0xE000, 0xFEFF, 0xFFFD, 0xFFFE, 0xFFFF, 0x10000, 0x1F600, 0xE0001, 0x10FFFF)

func runeStrings(rs ...rune) []string {
	out := make([]string, len(rs))
	for i, r := range rs {
		out[i] = string(r)
	}
	return out
}

// stringsUpTo streams every string of 0..n symbols over symS.
func stringsUpTo(n int, emit func(string) bool) {
	total, offs := powSum(len(symS), 0, n)
	buf := make([]int, 0, 8)
	var sb strings.Builder
	for i := int64(0); i < total; i++ {
		k, rest := decodeLen(i, 0, offs)
		buf = digits(rest, len(symS), k, buf)
		sb.Reset()
		for _, d := range buf {
			sb.WriteString(symS[d])
		}
		if !emit(sb.String()) {
			return
		}
	}
}

// scalarRunes streams every Unicode scalar value (surrogates excluded): 1 112 064 values.
func scalarRunes(emit func(rune) bool) {
	for r := rune(0); r <= utf8.MaxRune; r++ {
		if r >= 0xD800 && r <= 0xDFFF {
			continue
		}
		if !emit(r) {
			return
		}
	}
}

var mantissas = []uint64{0, 1, 1 << 51, 1<<52 - 1, 0x5555555555555, 0xAAAAAAAAAAAAA, 0x8000000000001, 0x7FFFFFFFFFFFF}

// floatsF is the structured float64 grid: sign x every finite exponent x 8 mantissa patterns,
// subnormals of the same shapes, whole values, powers of ten and neighbours, serializer switch points.
func floatsF() []float64 {
	var out []float64
	seen := map[uint64]bool{}
	add := func(f float64) {
		if math.IsNaN(f) || math.IsInf(f, 0) {
			return
		}
		b := math.Float64bits(f)
		if !seen[b] {
			seen[b] = true
			out = append(out, f)
		}
	}
	for _, sign := range []uint64{0, 1 << 63} {
		for e := uint64(0); e <= 2046; e++ {
			for _, m := range mantissas {
				add(math.Float64frombits(sign | e<<52 | m))
			}
		}
	}
	for i := -2000; i <= 2000; i++ {
		add(float64(i))
	}
	for k := -30; k <= 30; k++ {
		p := math.Pow(10, float64(k))
		for _, s := range []float64{1, -1} {
			add(s * p)
			add(s * math.Nextafter(p, math.Inf(1)))
			add(s * math.Nextafter(p, 0))
		}
	}
	for _, f := range []float64{1e6, 1e-6, 999999.9999999999, 999999, 1000001, 1 << 53, 1<<53 + 2, 1e21, 1e22, 1e15, 1e16, 1e17, 123456789012345680,
		0.1 + 0.2, 1.0 / 3, math.Pi, 5e-324, math.MaxFloat64, math.SmallestNonzeroFloat64, 2.2250738585072014e-308, 0.000001, 0.0000011, 100000, 100000.5,
		float64(math.MaxInt64), float64(math.MinInt64), 4294967296, 2147483648, 0.5, 0.25, 1.5, 2.5} {
		for _, s := range []float64{1, -1} {
			add(s * f)
			add(s * math.Nextafter(f, math.Inf(1)))
			add(s * math.Nextafter(f, 0))
		}
	}
	add(0)
	add(math.Copysign(0, -1))
	return out
}

// intsI is the integer boundary alphabet.
func intsI() []int {
	seen := map[int]bool{}
	var out []int
	add := func(i int) {
		if !seen[i] {
			seen[i] = true
			out = append(out, i)
		}
	}
	add(0)
	for k := 0; k <= 62; k++ {
		p := 1 << uint(k)
		for _, d := range []int{-1, 0, 1} {
			add(p + d)
			add(-p + d)
		}
	}
	p := 1
	for k := 0; k <= 18; k++ {
		for _, d := range []int{-1, 0, 1} {
			add(p + d)
			add(-p + d)
		}
		p *= 10
	}
	add(math.MaxInt)
	add(math.MinInt)
	add(math.MaxInt - 1)
	add(math.MinInt + 1)
	return out
}

// ---- document space shared by C01 / C02 / C16 ----

type docCase struct {
	V   *spec.V // list- or object-rooted specification
	Tag string  // which sub-space produced it
}

// wrapContexts puts one scalar into the syntactic contexts of DESIGN 4.C01(B).
func wrapContexts(sc *spec.V, asKey bool, emit func(docCase) bool, tag string) bool {
	if !emit(docCase{spec.L(sc), tag + "/list-elem"}) {
		return false
	}
	if !emit(docCase{spec.O(spec.P("k", sc)), tag + "/object-value"}) {
		return false
	}
	if !emit(docCase{spec.L(spec.O(spec.P("k", spec.L(sc)))), tag + "/nested"}) {
		return false
	}
	if asKey && sc.K == spec.Str {
		if !emit(docCase{spec.O(spec.P(sc.S, spec.I(1))), tag + "/object-key"}) {
			return false
		}
	}
	return true
}

type docOpts struct {
	TreeNodes, TreeDepth int
	Runes                bool // every Unicode scalar value as a one-character string
	RuneContexts         bool // all 4 contexts per rune (else list element + key only)
	StrLen               int  // multi-symbol strings up to this many symbols
	Floats, Ints         bool
}

var docLeaves = []*spec.V{spec.NilV, spec.B(true), spec.I(7), spec.I(-3), spec.F(1.5), spec.F(2.0), spec.F(math.Copysign(0, -1)), spec.S("s"), spec.S("")}
var docKeys = []string{"", "k", "a b"}

// genDocs streams the document space.
func genDocs(o docOpts, emit func(docCase) bool) {
	ok := true
	e := spec.NewEnum(docLeaves, docKeys)
	e.Containers(o.TreeNodes, o.TreeDepth, func(v *spec.V) bool {
		ok = emit(docCase{v, "tree"})
		return ok
	})
	if !ok {
		return
	}
	if o.Floats {
		for _, f := range floatsF() {
			if !wrapContexts(spec.F(f), false, emit, "float") {
				return
			}
		}
	}
	if o.Ints {
		for _, i := range intsI() {
			if !wrapContexts(spec.I(i), false, emit, "int") {
				return
			}
		}
	}
	if o.StrLen > 0 {
		stringsUpTo(o.StrLen, func(s string) bool {
			ok = wrapContexts(spec.S(s), true, emit, "string")
			if ok && len(s) > 0 {
				// the string as a KEY in front of every kind of value (what follows a key decides which code stores it),
				// as first and as second member, also one level down
				for _, val := range []*spec.V{spec.S(s), spec.NilV, spec.F(0.5), spec.L(), spec.L(spec.I(1), spec.S(s)), spec.O(), spec.O(spec.P(s, spec.L()))} {
					if !emit(docCase{spec.O(spec.P(s, val)), "string/key-before-" + val.K.String()}) ||
						!emit(docCase{spec.O(spec.P("first member", spec.I(0)), spec.P(s, val)), "string/second-key-before-" + val.K.String()}) ||
						!emit(docCase{spec.L(spec.O(spec.P(s, val))), "string/nested-key-before-" + val.K.String()}) {
						ok = false
						break
					}
				}
			}
			return ok
		})
		if !ok {
			return
		}
	}
	if o.Runes {
		scalarRunes(func(r rune) bool {
			sc := spec.S(string(r))
			if o.RuneContexts {
				ok = wrapContexts(sc, true, emit, "rune")
			} else {
				ok = emit(docCase{spec.L(sc), "rune/list-elem"}) && emit(docCase{spec.O(spec.P(sc.S, spec.I(1))), "rune/object-key"})
			}
			return ok
		})
	}
}

// features lists what is special about a specification (used in violation signatures so that
// different root causes stay distinguishable and known findings match narrowly).
func features(v *spec.V) string {
	f := map[string]bool{}
	var walk func(v *spec.V)
	str := func(s string) {
		for _, r := range s {
			switch {
			case r == 0xFFFD:
				f["U+FFFD"] = true
			case r == '\b' || r == '\f' || r == '\n' || r == '\r' || r == '\t':
				f["short-escape-ctrl"] = true
			case r < 0x20:
				f["C0-ctrl"] = true
			case r == 0x7f:
				f["DEL"] = true
			case r == '"' || r == '\\':
				f["quote-backslash"] = true
			case r >= 0x80 && r < 0xA0:
				f["C1-ctrl"] = true
			case r > 0xFFFF:
				f["astral"] = true
			case r >= 0x80:
				f["non-ascii-bmp"] = true
			}
		}
	}
	walk = func(v *spec.V) {
		switch v.K {
		case spec.Float:
			if v.F == math.Trunc(v.F) && math.Abs(v.F) < 1e6 {
				if v.F == 0 && math.Signbit(v.F) {
					f["float-negzero"] = true
				} else {
					f["float-whole<1e6"] = true
				}
			} else if v.F == math.Trunc(v.F) {
				f["float-whole>=1e6"] = true
			} else {
				f["float-fractional"] = true
			}
		case spec.Str:
			str(v.S)
		case spec.Lst:
			for _, e := range v.L {
				walk(e)
			}
		case spec.Obj:
			for _, e := range v.KV {
				str(e.K)
				walk(e.V)
			}
		}
	}
	walk(v)
	order := []string{"float-whole<1e6", "float-negzero", "float-whole>=1e6", "float-fractional", "U+FFFD", "C0-ctrl", "DEL", "C1-ctrl", "short-escape-ctrl", "quote-backslash", "astral", "non-ascii-bmp"}
	var out []string
	for _, k := range order {
		if f[k] {
			out = append(out, k)
		}
	}
	if len(out) == 0 {
		return "plain"
	}
	return strings.Join(out, "+")
}

// textNontrivial is the rule behind distinct_nontrivial for serialised documents.
func textNontrivial(s string) bool {
	if strings.ContainsAny(s, `\.`) || strings.Contains(s, "e+") || strings.Contains(s, "e-") {
		return true
	}
	depth, max := 0, 0
	for i := 0; i < len(s); i++ {
		c := s[i]
		if c >= 0x80 {
			return true
		}
		if c == '[' || c == '{' {
			depth++
			if depth > max {
				max = depth
			}
		} else if c == ']' || c == '}' {
			depth--
		}
	}
	return max >= 2
}
