package checks

import (
	"fmt"
	"math/big"
	"strconv"
	"strings"
	"unicode/utf8"

	"verif/ev"
	"verif/jsonref"
	"verif/par"
	"verif/spec"
)

func init() { register("C03", "exploration", runC03) }

const bs = "\\" // one backslash; escapes are assembled as bs+"u"+hex so no tool/editor can pre-decode them

// jsonTokens writes the compact token sequence of a specification (strings via strSpell).
func jsonTokens(v *spec.V, strSpell func(s string) string, out []string) []string {
	switch v.K {
	case spec.Nil:
		return append(out, "null")
	case spec.Bool:
		return append(out, strconv.FormatBool(v.B))
	case spec.Int:
		return append(out, strconv.Itoa(v.I))
	case spec.Float:
		s := strconv.FormatFloat(v.F, 'f', -1, 64)
		if !strings.Contains(s, ".") {
			s += ".0"
		}
		return append(out, s)
	case spec.Str:
		return append(out, strSpell(v.S))
	case spec.Lst:
		out = append(out, "[")
		for i, e := range v.L {
			if i > 0 {
				out = append(out, ",")
			}
			out = jsonTokens(e, strSpell, out)
		}
		return append(out, "]")
	default:
		out = append(out, "{")
		for i, e := range v.KV {
			if i > 0 {
				out = append(out, ",")
			}
			out = append(out, strSpell(e.K), ":")
			out = jsonTokens(e.V, strSpell, out)
		}
		return append(out, "}")
	}
}

// plainQuote is the harness's own minimal JSON string spelling.
func plainQuote(s string) string {
	var sb strings.Builder
	sb.WriteByte('"')
	for _, r := range s {
		switch {
		case r == '"' || r == '\\':
			sb.WriteString(bs)
			sb.WriteRune(r)
		case r < 0x20:
			sb.WriteString(bs + "u" + fmt.Sprintf("%04x", r))
		default:
			sb.WriteRune(r)
		}
	}
	sb.WriteByte('"')
	return sb.String()
}

type c03Doc struct {
	Text string
	Want *spec.V
	Tag  string
}

// c03One parses one valid JSON text and compares with the expected specification.
func c03One(d c03Doc) (msg, stage string) {
	var parsed interface{}
	var err error
	if p, val := try(func() { parsed, err = parseRoot(d.Want, d.Text) }); p {
		return fmt.Sprintf("parsing valid JSON %+q panicked: %v", d.Text, val), "panic"
	}
	if err != nil {
		return fmt.Sprintf("valid JSON %+q rejected: %v", d.Text, err), "rejected"
	}
	if m := spec.Match(parsed, d.Want); m != "" {
		return fmt.Sprintf("valid JSON %+q should read as %s; parser result differs at %s", d.Text, d.Want, m), "differs"
	}
	return "", ""
}

// selfCheck: the generated text must be valid for both independent readers and denote Want.
func c03SelfCheck(d c03Doc) string {
	if !jsonref.Valid(d.Text) {
		return "strict recogniser rejects generated text"
	}
	dec, err := jsonref.Decode(d.Text)
	if err != nil {
		return "encoding/json rejects generated text: " + err.Error()
	}
	if m := jsonref.MatchDecoded(dec, d.Want, "$"); m != "" {
		return "encoding/json decodes generated text differently: " + m
	}
	return ""
}

var c03Leaves = []*spec.V{spec.NilV, spec.B(true), spec.B(false), spec.I(0), spec.I(-1), spec.I(12), spec.F(1.5), spec.S("a"), spec.S("")}
var c03Keys = []string{"", "a", "b"}

var wsSet = []string{" ", "\n", "\r", "\t", " \n\t\r"}

// number spelling product
var numSigns = []string{"", "-"}
var numInts = []string{"0", "1", "7", "10", "42", "9223372036854775807", "9223372036854775808", "123456789012345678901234567890"}
var numFracs = []string{"", ".0", ".5", ".25", ".000001", ".10"}
var numExps = []string{"", "e0", "E0", "e1", "e+1", "E-1", "e10", "e-10", "E+30"}

// numberSpec gives the specification of a JSON number literal per the property's rule.
func numberSpec(lit string) (*spec.V, bool) {
	if jsonref.NumberIsInt(lit) {
		bi, ok := new(big.Int).SetString(lit, 10)
		if ok && bi.IsInt64() {
			return spec.I(int(bi.Int64())), true
		}
	}
	f, ok := jsonref.NumberFloat(lit)
	if !ok {
		return nil, false
	}
	return spec.F(f), true
}

func c03Tag(tag string) string {
	if i := strings.Index(tag, "/"); i > 0 {
		return tag[:i]
	}
	return tag
}

func runC03(c *ev.Ctx) {
	defer sizeSweep(c, "C03")
	treeN, wsN, tokLen := 5, 4, 3
	pairStep := 16 // quick: 64x64 grid of surrogate halves
	if c.Thorough() {
		pairStep = 1
	}
	c.Rule(fmt.Sprintf("valid JSON texts generated from a specification tree plus spelling choices (expected result known by construction): (1) every tree with <= %d nodes, depth <= 3 over 9 leaves and keys {\"\",a,b}, plus every object with 2..3 members over keys {\"\",a,b} WITH duplicate keys (last wins), flat and nested; (2) for every tree with <= %d nodes: whitespace layouts none / each single gap x {SP,LF,CR,HT,SP LF HT CR} / every gap x the same; (3) strings as list element, object value and key: every scalar value >= U+0020 except quote and backslash raw, every BMP non-surrogate code point as a \\uXXXX escape in lower and upper hex, surrogate-pair escapes on a grid with step %d over both halves (step 1 = all 1 048 576), the 8 short escapes, every string of <= %d tokens over a 14-token raw/escape alphabet; (3b) every literal of <= 2 such tokens crossed with 4 whitespace choices in each of the 4 gaps around it, as key / object value / list elements (spelling x layout); (4) numbers: sign x 8 integer parts x 6 fractions x 9 exponents as element and object value, followed by each delimiter and each whitespace; (4b) decimals whose 16-19 digits form an integer next to 2^53, 10^16, 10^17, 10^18, 2^63 (512 each) with the point at every second position, plain / with leading -0. / with exponent. Every text is first validated by the strict recogniser and encoding/json against the expectation (generator self-check = harness error, never a violation). Non-trivial = distinct text containing an escape, a non-ASCII byte, whitespace, a fraction/exponent or nesting >= 2.", treeN, wsN, pairStep, tokLen))
	c.Assume("expected number kinds follow the statement: integer literal fitting int -> int, everything else within float64 range -> correctly rounded float64 (big.Rat)", "lone surrogate escapes have no agreed decoding and are not generated")

	gen := func(emit func(c03Doc) bool) {
		// (1) structure
		e := spec.NewEnum(c03Leaves, c03Keys)
		ok := true
		e.Containers(treeN, 3, func(v *spec.V) bool {
			ok = emit(c03Doc{strings.Join(jsonTokens(v, plainQuote, nil), ""), v, "structure"})
			return ok
		})
		if !ok {
			return
		}
		// (1b) duplicate keys, last wins
		vals := []*spec.V{spec.I(1), spec.S("x"), spec.L(spec.I(2)), spec.O(spec.P("b", spec.I(3))), spec.NilV}
		for n := 2; n <= 3; n++ {
			total, _ := powSum(len(c03Keys), n, n)
			for i := int64(0); i < total; i++ {
				ks := digits(i, len(c03Keys), n, nil)
				for rot := 0; rot < len(vals); rot++ {
					var toks []string
					toks = append(toks, "{")
					want := map[string]*spec.V{}
					var order []string
					for j, k := range ks {
						if j > 0 {
							toks = append(toks, ",")
						}
						key := c03Keys[k]
						val := vals[(j+rot)%len(vals)]
						toks = append(toks, plainQuote(key), ":")
						toks = jsonTokens(val, plainQuote, toks)
						if _, seen := want[key]; !seen {
							order = append(order, key)
						}
						want[key] = val
					}
					toks = append(toks, "}")
					kv := make([]spec.KV, len(order))
					for j, k := range order {
						kv[j] = spec.P(k, want[k])
					}
					o := spec.O(kv...)
					if !emit(c03Doc{strings.Join(toks, ""), o, "dupkeys/flat"}) ||
						!emit(c03Doc{"[" + strings.Join(toks, "") + "]", spec.L(o), "dupkeys/in-list"}) ||
						!emit(c03Doc{`{"z":` + strings.Join(toks, "") + `,"z":` + strings.Join(toks, "") + "}", spec.O(spec.P("z", o)), "dupkeys/nested-dup"}) {
						return
					}
				}
			}
		}
		// (2) whitespace layouts
		e.Containers(wsN, 3, func(v *spec.V) bool {
			toks := jsonTokens(v, plainQuote, nil)
			g := len(toks) + 1
			var sb strings.Builder
			layout := func(f func(gap int) string, tag string) bool {
				sb.Reset()
				for i, t := range toks {
					sb.WriteString(f(i))
					sb.WriteString(t)
				}
				sb.WriteString(f(len(toks)))
				return emit(c03Doc{sb.String(), v, tag})
			}
			for _, w := range wsSet {
				w := w
				if !layout(func(int) string { return w }, "whitespace/every-gap") {
					ok = false
					return false
				}
				for k := 0; k < g; k++ {
					k := k
					if !layout(func(gap int) string {
						if gap == k {
							return w
						}
						return ""
					}, "whitespace/single-gap") {
						ok = false
						return false
					}
				}
			}
			return true
		})
		if !ok {
			return
		}
		// (3) strings
		ctx := func(lit string, val string, tag string) bool {
			return emit(c03Doc{"[" + lit + "]", spec.L(spec.S(val)), tag + "/list-elem"}) &&
				emit(c03Doc{`{"k":` + lit + "}", spec.O(spec.P("k", spec.S(val))), tag + "/object-value"}) &&
				emit(c03Doc{"{" + lit + ":1}", spec.O(spec.P(val, spec.I(1))), tag + "/object-key"})
		}
		// the same literal followed / preceded by further members (buffers must be reset between members)
		ctxSeq := func(lit string, val string, tag string) bool {
			return emit(c03Doc{"[" + lit + `,"z",1,` + lit + "]", spec.L(spec.S(val), spec.S("z"), spec.I(1), spec.S(val)), tag + "/list-sequence"}) &&
				emit(c03Doc{`{"k":` + lit + `,"j":"z","i":2}`, spec.O(spec.P("k", spec.S(val)), spec.P("j", spec.S("z")), spec.P("i", spec.I(2))), tag + "/object-sequence"}) &&
				emit(c03Doc{"{" + lit + `:"v","j":` + lit + "}", c03KeySeq(val), tag + "/key-sequence"}) &&
				emit(c03Doc{"[1," + lit + ",[" + lit + "],{" + `"q":` + lit + "}]", spec.L(spec.I(1), spec.S(val), spec.L(spec.S(val)), spec.O(spec.P("q", spec.S(val)))), tag + "/mixed-sequence"})
		}
		for r := rune(0x20); r <= utf8.MaxRune; r++ {
			if r == '"' || r == '\\' || (r >= 0xD800 && r <= 0xDFFF) {
				continue
			}
			if !ctx(`"`+string(r)+`"`, string(r), "raw-rune") {
				return
			}
		}
		for r := rune(0); r <= 0xFFFF; r++ {
			if r >= 0xD800 && r <= 0xDFFF {
				continue
			}
			lo := fmt.Sprintf("%04x", r)
			if !ctx(`"`+bs+"u"+lo+`"`, string(r), "u-escape-lower") || !ctxSeq(`"`+bs+"u"+lo+`"`, string(r), "u-escape-lower") {
				return
			}
			if up := strings.ToUpper(lo); up != lo {
				if !ctx(`"`+bs+"u"+up+`"`, string(r), "u-escape-upper") {
					return
				}
			}
		}
		for hi := 0xD800; hi <= 0xDBFF; hi += pairStep {
			for lo := 0xDC00; lo <= 0xDFFF; lo += pairStep {
				for _, pr := range [][2]int{{hi, lo}, {0xDBFF - (hi - 0xD800), 0xDFFF - (lo - 0xDC00)}} {
					r := rune(0x10000 + (pr[0]-0xD800)<<10 + (pr[1] - 0xDC00))
					lit := `"` + bs + "u" + fmt.Sprintf("%04x", pr[0]) + bs + "u" + fmt.Sprintf("%04X", pr[1]) + `"`
					if !ctx(lit, string(r), "surrogate-pair") {
						return
					}
					if pairStep == 1 {
						break
					}
				}
			}
		}
		for _, se := range [][2]string{{`"`, `"`}, {bs, bs}, {"/", "/"}, {"b", "\b"}, {"f", "\f"}, {"n", "\n"}, {"r", "\r"}, {"t", "\t"}} {
			if !ctx(`"`+bs+se[0]+`"`, se[1], "short-escape") || !ctx(`"x`+bs+se[0]+`y"`, "x"+se[1]+"y", "short-escape") || !ctxSeq(`"`+bs+se[0]+`"`, se[1], "short-escape") {
				return
			}
		}
		type tk struct{ lit, val string }
		toks := []tk{{"a", "a"}, {"/", "/"}, {bs + "/", "/"}, {bs + `"`, `"`}, {bs + bs, bs}, {bs + "n", "\n"}, {bs + "u0041", "A"}, {bs + "u00e9", string(rune(0xE9))},
			{bs + "ud83d" + bs + "ude00", string(rune(0x1F600))}, {string(rune(0xE9)), string(rune(0xE9))}, {string(rune(0x1F600)), string(rune(0x1F600))},
			{string(rune(0xFFFD)), string(rune(0xFFFD))}, {bs + "ufffd", string(rune(0xFFFD))}, {"\x7f", "\x7f"}}
		total, offs := powSum(len(toks), 0, tokLen)
		for i := int64(0); i < total; i++ {
			n, rest := decodeLen(i, 0, offs)
			dg := digits(rest, len(toks), n, nil)
			var lit, val strings.Builder
			for _, d := range dg {
				lit.WriteString(toks[d].lit)
				val.WriteString(toks[d].val)
			}
			if !ctx(`"`+lit.String()+`"`, val.String(), "token-string") || !ctxSeq(`"`+lit.String()+`"`, val.String(), "token-string") {
				return
			}
		}
		// (3b) spelling x layout: every literal of <= 2 tokens (and the single-token ones doubled) with
		// independent whitespace in each of the four gaps around it, as key, as object value and as list elements
		wsGap := []string{"", " ", "\n", "\t \r"}
		total2, offs2 := powSum(len(toks), 0, 2)
		for i := int64(0); i < total2; i++ {
			n, rest := decodeLen(i, 0, offs2)
			dg := digits(rest, len(toks), n, nil)
			var lit, val strings.Builder
			for _, d := range dg {
				lit.WriteString(toks[d].lit)
				val.WriteString(toks[d].val)
			}
			l, v := `"`+lit.String()+`"`, val.String()
			for g := 0; g < 256; g++ {
				g0, g1, g2, g3 := wsGap[g&3], wsGap[g>>2&3], wsGap[g>>4&3], wsGap[g>>6&3]
				if !emit(c03Doc{"{" + g0 + l + g1 + ":" + g2 + "1" + g3 + "}", spec.O(spec.P(v, spec.I(1))), "layout-x-spelling/key"}) ||
					!emit(c03Doc{`{"k"` + g0 + ":" + g1 + l + g2 + "," + g3 + `"j":2}`, spec.O(spec.P("k", spec.S(v)), spec.P("j", spec.I(2))), "layout-x-spelling/object-value"}) ||
					!emit(c03Doc{"[" + g0 + l + g1 + "," + g2 + l + g3 + "]", spec.L(spec.S(v), spec.S(v)), "layout-x-spelling/list"}) {
					return
				}
			}
		}
		// (4b) decimals with 16-19 significant digits: the digit string is an integer around 2^53, 10^16, 10^17,
		// 10^18 or 2^63 (not exactly representable when odd), the point stands at every position. A shortcut
		// that converts the digits as one integer and scales by a power of ten rounds twice.
		for _, base := range []uint64{1 << 53, 10000000000000000, 100000000000000000, 1000000000000000000, 1<<63 - 2048} {
			for k := uint64(0); k < 512; k++ {
				digs := strconv.FormatUint(base+k*3+1, 10)
				for pos := 1; pos < len(digs); pos += 2 {
					for _, lit := range []string{digs[:pos] + "." + digs[pos:], "-0." + digs[:pos] + digs[pos:], digs[:pos] + "." + digs[pos:] + "e-3"} {
						want, ok := numberSpec(lit)
						if !ok {
							continue
						}
						if !emit(c03Doc{"[" + lit + "]", spec.L(want), "number/long-mantissa"}) || !emit(c03Doc{`{"k":` + lit + "}", spec.O(spec.P("k", want)), "number/long-mantissa"}) {
							return
						}
					}
				}
			}
		}
		// (4) numbers
		for _, sg := range numSigns {
			for _, ip := range numInts {
				for _, fr := range numFracs {
					for _, ex := range numExps {
						lit := sg + ip + fr + ex
						want, ok := numberSpec(lit)
						if !ok {
							continue
						}
						for _, after := range append([]string{""}, wsSet...) {
							if !emit(c03Doc{"[" + lit + after + "]", spec.L(want), "number/list-last"}) ||
								!emit(c03Doc{"[" + lit + after + ",null]", spec.L(want, spec.NilV), "number/list-first"}) ||
								!emit(c03Doc{"[null," + after + lit + after + "]", spec.L(spec.NilV, want), "number/list-second"}) ||
								!emit(c03Doc{`{"k":` + after + lit + after + "}", spec.O(spec.P("k", want)), "number/object-last"}) ||
								!emit(c03Doc{`{"k":` + lit + after + `,"j":` + lit + "}", spec.O(spec.P("k", want), spec.P("j", want)), "number/object-first"}) {
								return
							}
						}
					}
				}
			}
		}
	}

	par.Stream(c.Workers, func() bool { return c.Expired() || c.TooMany() }, gen, func(w int, d c03Doc) {
		c.Eval(1)
		if why := c03SelfCheck(d); why != "" {
			ev.Harness("C03", "generator self-check failed for %+q (%s): %s", d.Text, d.Tag, why)
		}
		if textNontrivial(d.Text) || strings.ContainsAny(d.Text, " \n\r\t") {
			c.Nontrivial(d.Text)
		}
		c.SampleTag(d.Tag, func() interface{} {
			return map[string]string{"space": d.Tag, "text": d.Text, "expect": d.Want.String()}
		})
		if msg, stage := c03One(d); msg != "" {
			d := d
			sig := "parse/" + stage + "/" + c03Tag(d.Tag) + "/" + c03Class(d)
			c.Violate(ev.Violation{Sig: sig, Msg: msg, Witness: map[string]string{"text": d.Text, "expect": d.Want.String(), "space": d.Tag}},
				func() string { _, st := c03One(d); return "parse/" + st + "/" + c03Tag(d.Tag) + "/" + c03Class(d) })
		}
	})
	if c.Expired() {
		c.Cut("deadline reached before the text space was completed")
	}
}

// c03KeySeq is the expectation of {<lit>:"v","j":<lit>} (the literal may itself spell the key "j": last wins).
func c03KeySeq(val string) *spec.V {
	if val == "j" {
		return spec.O(spec.P("j", spec.S(val)))
	}
	return spec.O(spec.P(val, spec.S("v")), spec.P("j", spec.S(val)))
}

// c03Class names the spelling feature of a text that distinguishes root causes.
func c03Class(d c03Doc) string {
	t := d.Text
	var f []string
	if strings.Contains(t, bs+"/") {
		f = append(f, "escaped-solidus")
	}
	if i := strings.Index(t, bs+"ud"); i >= 0 || strings.Contains(t, bs+"uD") {
		f = append(f, "surrogate-escape")
	}
	if strings.Contains(t, string(rune(0xFFFD))) {
		f = append(f, "raw-U+FFFD")
	}
	if len(f) == 0 {
		return "other"
	}
	return strings.Join(f, "+")
}
