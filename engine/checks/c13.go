package checks

import (
	"fmt"
	"math"
	"reflect"
	"sort"
	"strings"

	at "github.com/DanielSvub/anytype"
	"verif/ev"
	"verif/par"
	"verif/spec"
)

func init() { register("C13", "model_checking", runC13) }

// renderNative is a canonical rendering of a plain Go tree; nil and empty slices/maps are identified.
func renderNative(v interface{}) string {
	var sb strings.Builder
	var rec func(v interface{})
	rec = func(v interface{}) {
		switch x := v.(type) {
		case nil:
			sb.WriteString("nil")
		case map[string]interface{}:
			ks := make([]string, 0, len(x))
			for k := range x {
				ks = append(ks, k)
			}
			sort.Strings(ks)
			sb.WriteString("{")
			for _, k := range ks {
				fmt.Fprintf(&sb, "%q:", k)
				rec(x[k])
				sb.WriteString(",")
			}
			sb.WriteString("}")
		case []interface{}:
			sb.WriteString("[")
			for _, e := range x {
				rec(e)
				sb.WriteString(",")
			}
			sb.WriteString("]")
		case at.List:
			fmt.Fprintf(&sb, "List@%p", x)
		case at.Object:
			fmt.Fprintf(&sb, "Object@%p", x)
		default:
			fmt.Fprintf(&sb, "%T(%v)", v, v)
		}
	}
	rec(v)
	return sb.String()
}

// apiNative reads a container through Count/Keys/Get only and returns the native tree it denotes.
func apiNative(c interface{}) interface{} {
	switch x := c.(type) {
	case at.List:
		out := make([]interface{}, 0, x.Count())
		for i := 0; i < x.Count(); i++ {
			out = append(out, apiNative(x.Get(i)))
		}
		return out
	case at.Object:
		out := map[string]interface{}{}
		for _, k := range x.Keys().StringSlice() {
			out[k] = apiNative(x.Get(k))
		}
		return out
	}
	return c
}

// hasContainer reports whether an anytype container hides anywhere inside a native tree.
func hasContainer(v interface{}) bool {
	switch x := v.(type) {
	case at.List, at.Object:
		return true
	case map[string]interface{}:
		for _, e := range x {
			if hasContainer(e) {
				return true
			}
		}
	case []interface{}:
		for _, e := range x {
			if hasContainer(e) {
				return true
			}
		}
	default:
		if v != nil {
			k := reflect.TypeOf(v).Kind()
			if k == reflect.Map || k == reflect.Slice || k == reflect.Ptr || k == reflect.Struct {
				return true // anything but plain scalars, map[string]any and []any is not "plain Go" here
			}
		}
	}
	return false
}

// nativeNodes lists the map / slice nodes of a native tree (deterministic order).
func nativeNodes(v interface{}, out *[]interface{}) {
	switch x := v.(type) {
	case map[string]interface{}:
		*out = append(*out, x)
		ks := make([]string, 0, len(x))
		for k := range x {
			ks = append(ks, k)
		}
		sort.Strings(ks)
		for _, k := range ks {
			nativeNodes(x[k], out)
		}
	case []interface{}:
		*out = append(*out, x)
		for _, e := range x {
			nativeNodes(e, out)
		}
	}
}

// modNative applies modification kind k to node; returns false if not applicable.
func modNative(node interface{}, k int) bool {
	switch x := node.(type) {
	case map[string]interface{}:
		ks := make([]string, 0, len(x))
		for key := range x {
			ks = append(ks, key)
		}
		sort.Strings(ks)
		switch k {
		case 0:
			x["mod"] = "MOD"
			return true
		case 1:
			if len(ks) > 0 {
				delete(x, ks[0])
				return true
			}
		case 2:
			if len(ks) > 0 {
				x[ks[0]] = "MOD"
				return true
			}
		}
	case []interface{}:
		switch k {
		case 0:
			if len(x) > 0 {
				x[0] = "MOD"
				return true
			}
		case 1:
			if len(x) > 1 {
				x[len(x)-1] = []interface{}{"MOD"}
				return true
			}
		case 2:
			if cap(x) > len(x) {
				_ = append(x, "MOD") // writes into spare capacity: invisible to this header, visible to an aliasing one
				return true
			}
		}
	}
	return false
}

// the whole setup for one tree
type c13Setup struct {
	v       *spec.V
	src     interface{} // source native value
	c       interface{} // container built from it
	deep    interface{} // NativeDict / NativeSlice
	shallow interface{} // Dict / Slice
}

func c13Build(v *spec.V) (s c13Setup, err string) {
	s.v = v
	s.src = v.Native()
	if pn, pv := try(func() {
		if v.K == spec.Lst {
			l := at.NewListFrom(s.src)
			s.c, s.deep, s.shallow = l, l.NativeSlice(), l.Slice()
		} else {
			o := at.NewObjectFrom(s.src)
			s.c, s.deep, s.shallow = o, o.NativeDict(), o.Dict()
		}
	}); pn {
		return s, fmt.Sprint(pv)
	}
	return s, ""
}

func deepOf(c interface{}) interface{} {
	if l, ok := c.(at.List); ok {
		return l.NativeSlice()
	}
	return c.(at.Object).NativeDict()
}

func shallowOf(c interface{}) interface{} {
	if l, ok := c.(at.List); ok {
		return l.Slice()
	}
	return c.(at.Object).Dict()
}

// shallowMatches: Dict()/Slice() hold exactly what Get returns per key/index.
func shallowMatches(c interface{}, sh interface{}) string {
	switch x := c.(type) {
	case at.List:
		s, ok := sh.([]interface{})
		if !ok || len(s) != x.Count() {
			return fmt.Sprintf("Slice() has %d entries for Count()=%d", len(s), x.Count())
		}
		for i := range s {
			if !sameVal(s[i], x.Get(i)) {
				return fmt.Sprintf("Slice()[%d] = %s but Get(%d) = %s", i, show(s[i]), i, show(x.Get(i)))
			}
		}
	case at.Object:
		d, ok := sh.(map[string]interface{})
		if !ok || len(d) != x.Count() {
			return fmt.Sprintf("Dict() has %d entries for Count()=%d", len(d), x.Count())
		}
		for k, v := range d {
			if !x.KeyExists(k) || !sameVal(v, x.Get(k)) {
				return fmt.Sprintf("Dict()[%q] = %s differs from Get", k, show(v))
			}
		}
	}
	return ""
}

// c13Fidelity: the static half of the property for one tree.
func c13Fidelity(v *spec.V) (msg, sig string) {
	s, err := c13Build(v)
	if err != "" {
		return fmt.Sprintf("building from native %s panicked: %s", v, err), "native/build-panic"
	}
	if m := spec.Match(s.c, v); m != "" {
		return fmt.Sprintf("container built from native %s differs: %s", v, m), "native/from"
	}
	if got := renderNative(s.src); got != renderNative(v.Native()) {
		return fmt.Sprintf("building a container from the native value %s modified that value: %s", renderNative(v.Native()), got), "native/source-modified"
	}
	want := renderNative(v.Native())
	if hasContainer(s.deep) {
		return fmt.Sprintf("Native export of %s still contains an anytype container or a non-plain value: %s", v, renderNative(s.deep)), "native/container-inside"
	}
	if got := renderNative(s.deep); got != want {
		return fmt.Sprintf("Native export of the container built from %s is %s", want, got), "native/roundtrip"
	}
	// also for the same content built through the mutator API
	if got := renderNative(deepOf(v.Build())); got != want {
		return fmt.Sprintf("Native export of the container built by Add/Set from %s is %s", want, got), "native/export"
	}
	if m := shallowMatches(s.c, s.shallow); m != "" {
		return fmt.Sprintf("%s (tree %s)", m, v), "native/shallow"
	}
	return "", ""
}

// one modification step
type c13Mod struct {
	Target int // 0 source, 1 deep export, 2 shallow export, 3 container
	Node   int
	K      int
}

var c13Targets = []string{"source native value", "Native* export", "Dict/Slice export", "container"}

func (m c13Mod) String() string {
	return fmt.Sprintf("%s node#%d mod#%d", c13Targets[m.Target], m.Node, m.K)
}

var c13ContMods = []string{"root Add/Set new", "root Replace/Set existing", "root Delete/Unset", "nested SetTF", "root Clear", "nested container mutated through the handle held by the shallow export"}

// applyMod performs the modification; ok=false when not applicable.
func c13Apply(s *c13Setup, m c13Mod) (ok bool) {
	switch m.Target {
	case 0, 1, 2:
		root := []interface{}{s.src, s.deep, s.shallow}[m.Target]
		var nodes []interface{}
		nativeNodes(root, &nodes)
		if m.Target == 2 && m.Node > 0 {
			return false // shallow export: only its top level is a native node
		}
		if m.Node >= len(nodes) {
			return false
		}
		return modNative(nodes[m.Node], m.K)
	default:
		if m.Node != 0 {
			return false
		}
		switch c := s.c.(type) {
		case at.List:
			switch m.K {
			case 0:
				c.Add("MOD")
			case 1:
				if c.Count() == 0 {
					return false
				}
				c.Replace(0, "MOD")
			case 2:
				if c.Count() == 0 {
					return false
				}
				c.Delete(0)
			case 3:
				c.SetTF("#0#0", "MOD")
			case 4:
				c.Clear()
			case 5:
				done := false
				for _, e := range s.shallow.([]interface{}) {
					if l, ok := e.(at.List); ok {
						l.Add("MOD")
						done = true
						break
					}
					if o, ok := e.(at.Object); ok {
						o.Set("mod", "MOD")
						done = true
						break
					}
				}
				return done
			default:
				return false
			}
		case at.Object:
			switch m.K {
			case 0:
				c.Set("mod", "MOD")
			case 1:
				if c.Count() == 0 {
					return false
				}
				c.Set(c.Keys().GetString(0), "MOD")
			case 2:
				if c.Count() == 0 {
					return false
				}
				c.Unset(c.Keys().GetString(0))
			case 3:
				c.SetTF(".a.z", "MOD")
			case 4:
				c.Clear()
			case 5:
				done := false
				d := s.shallow.(map[string]interface{})
				ks := make([]string, 0, len(d))
				for k := range d {
					ks = append(ks, k)
				}
				sort.Strings(ks)
				for _, k := range ks {
					if l, ok := d[k].(at.List); ok {
						l.Add("MOD")
						done = true
						break
					}
					if o, ok := d[k].(at.Object); ok {
						o.Set("mod", "MOD")
						done = true
						break
					}
				}
				return done
			default:
				return false
			}
		}
		return true
	}
}

type c13Snap struct{ src, cont, deep, shallow string }

func c13Snapshot(s *c13Setup) c13Snap {
	return c13Snap{renderNative(s.src), renderNative(deepOf(s.c)), renderNative(s.deep), renderNative(s.shallow)}
}

// c13Run executes a modification sequence on a fresh setup and checks the frame condition after
// each step: everything that was not the target keeps its previous rendering.
func c13Run(v *spec.V, mods []c13Mod) (msg, sig string, applied bool, final string) {
	s, err := c13Build(v)
	if err != "" {
		return "build panicked: " + err, "native/build-panic", true, ""
	}
	for _, m := range mods {
		before := c13Snapshot(&s)
		var ok bool
		if pn, pv := try(func() { ok = c13Apply(&s, m) }); pn {
			return fmt.Sprintf("modification %v panicked on tree %s: %v", m, v, pv), "alias/panic", true, ""
		}
		if !ok {
			return "", "", false, ""
		}
		after := c13Snapshot(&s)
		// a brand-new container built from the same specification must still export exactly its content:
		// catches export storage shared between containers (package-level caches), reproducibly
		if m.Target != 0 {
			if fresh := renderNative(deepOf(v.Build())); fresh != renderNative(v.Native()) {
				return fmt.Sprintf("tree %s: after modifying the %s (%v) of one container, the Native export of a NEW container built from the same content is %s", v, c13Targets[m.Target], m, fresh), "alias/export-storage-shared-between-containers", true, ""
			}
		}
		type pair struct {
			name   string
			b, a   string
			target int
		}
		for _, p := range []pair{{"source native value", before.src, after.src, 0}, {"Native* export", before.deep, after.deep, 1}, {"Dict/Slice export", before.shallow, after.shallow, 2}, {"container content", before.cont, after.cont, 3}} {
			if p.target == m.Target {
				continue
			}
			// a mutation of a nested container through the handle held in the shallow export legitimately
			// shows in the container (the handle IS the container's element) and vice versa
			if m.Target == 3 && m.K == 5 && p.target == 2 {
				continue
			}
			if m.Target == 3 && p.target == 2 && (m.K == 3) {
				// SetTF into a nested container reachable from the shallow export's handles changes what those handles print; identity-based rendering is unaffected
			}
			if p.b != p.a {
				return fmt.Sprintf("tree %s: modifying the %s (%v) changed the %s: %s -> %s", v, c13Targets[m.Target], m, p.name, p.b, p.a), fmt.Sprintf("alias/%s-changes-%s", strings.Fields(c13Targets[m.Target])[0], strings.Fields(p.name)[0]), true, ""
			}
		}
		// a fresh export always reflects the container
		if sm := shallowMatches(s.c, shallowOf(s.c)); sm != "" {
			return sm, "native/shallow", true, ""
		}
		// ... the deep one too: compared with a walk through Count/Keys/Get (lesson of round 10: an export that is
		// memoised inside the container must not survive a later change of the container or of a nested one)
		var viaAPI, fresh string
		if pn, _ := try(func() { viaAPI, fresh = renderNative(apiNative(s.c)), renderNative(deepOf(s.c)) }); !pn && viaAPI != fresh {
			return fmt.Sprintf("tree %s: after %v the fresh Native* export is %s, the container read through Count/Keys/Get holds %s", v, m, fresh, viaAPI), "native/deep-stale", true, ""
		}
	}
	f := c13Snapshot(&s)
	return "", "", true, f.src + "|" + f.cont + "|" + f.deep + "|" + f.shallow
}

func c13AllMods() []c13Mod {
	var out []c13Mod
	for t := 0; t <= 2; t++ {
		for node := 0; node < 4; node++ {
			for k := 0; k < 3; k++ {
				out = append(out, c13Mod{t, node, k})
			}
		}
	}
	for k := range c13ContMods {
		out = append(out, c13Mod{3, 0, k})
	}
	return out
}

// typed flavours: normalisation of every supported typed map/slice, at the root and nested.
func c13Flavours(c *ev.Ctx) {
	type fl struct {
		name string
		in   interface{}
		want string
	}
	o1, l1 := at.NewObject("x", 1), at.NewList(2)
	var cases []fl
	for n := 0; n <= 2; n++ {
		ks := []string{"a", "b"}[:n]
		si, sf, ss, sb, so, sl := make([]int, n), make([]float64, n), make([]string, n), make([]bool, n), make([]at.Object, n), make([]at.List, n)
		mi, mf, ms, mb, mo, ml := map[string]int{}, map[string]float64{}, map[string]string{}, map[string]bool{}, map[string]at.Object{}, map[string]at.List{}
		wi, wf, ws, wb, wo, wl := []interface{}{}, []interface{}{}, []interface{}{}, []interface{}{}, []interface{}{}, []interface{}{}
		mwi, mwf, mws, mwb, mwo, mwl := map[string]interface{}{}, map[string]interface{}{}, map[string]interface{}{}, map[string]interface{}{}, map[string]interface{}{}, map[string]interface{}{}
		for i := 0; i < n; i++ {
			si[i], sf[i], ss[i], sb[i], so[i], sl[i] = i+5, float64(i)+0.5, fmt.Sprint("s", i), i == 0, o1, l1
			wi, wf, ws, wb = append(wi, i+5), append(wf, float64(i)+0.5), append(ws, fmt.Sprint("s", i)), append(wb, i == 0)
			wo, wl = append(wo, map[string]interface{}{"x": 1}), append(wl, []interface{}{2})
			k := ks[i]
			mi[k], mf[k], ms[k], mb[k], mo[k], ml[k] = i+5, float64(i)+0.5, fmt.Sprint("s", i), i == 0, o1, l1
			mwi[k], mwf[k], mws[k], mwb[k], mwo[k], mwl[k] = i+5, float64(i)+0.5, fmt.Sprint("s", i), i == 0, map[string]interface{}{"x": 1}, []interface{}{2}
		}
		for _, p := range []struct {
			name string
			in   interface{}
			want interface{}
		}{{"[]int", si, wi}, {"[]float64", sf, wf}, {"[]string", ss, ws}, {"[]bool", sb, wb}, {"[]Object", so, wo}, {"[]List", sl, wl},
			{"map[string]int", mi, mwi}, {"map[string]float64", mf, mwf}, {"map[string]string", ms, mws}, {"map[string]bool", mb, mwb}, {"map[string]Object", mo, mwo}, {"map[string]List", ml, mwl}} {
			cases = append(cases, fl{fmt.Sprintf("%s(len %d) at the root", p.name, n), p.in, renderNative(p.want)})
			cases = append(cases, fl{fmt.Sprintf("%s(len %d) nested in []any", p.name, n), []interface{}{p.in, int8(3)}, renderNative([]interface{}{p.want, 3})})
			cases = append(cases, fl{fmt.Sprintf("%s(len %d) nested in map[string]any", p.name, n), map[string]interface{}{"k": p.in, "f": float32(0.5)}, renderNative(map[string]interface{}{"k": p.want, "f": 0.5})})
		}
	}
	// numeric widths are normalised, never prettified: a float32 leaf must come back as the float64 holding
	// exactly the same number (0.1f -> 0.10000000149011612)
	for _, f := range []float32{0.1, 3.14, 1.0 / 3, 1e-7, 1677721.75, math.MaxFloat32, math.SmallestNonzeroFloat32, -2.7182817, 16777217} {
		cases = append(cases, fl{fmt.Sprintf("float32(%v) leaf in []any", f), []interface{}{f, map[string]interface{}{"k": f}}, renderNative([]interface{}{float64(f), map[string]interface{}{"k": float64(f)}})})
		cases = append(cases, fl{fmt.Sprintf("float32(%v) leaf in map[string]any", f), map[string]interface{}{"a": []interface{}{f}, "b": f}, renderNative(map[string]interface{}{"a": []interface{}{float64(f)}, "b": float64(f)})})
	}
	for _, u := range []struct {
		in   interface{}
		want int
	}{{uint8(128), 128}, {uint8(200), 200}, {uint8(255), 255}, {uint16(32768), 32768}, {uint16(50000), 50000}, {uint16(65535), 65535}, {uint32(2147483648), 2147483648}, {uint32(4294967295), 4294967295},
		{uint(1 << 40), 1 << 40}, {uint64(math.MaxInt64), math.MaxInt64}, {int8(-128), -128}, {int16(-32768), -32768}, {int32(math.MinInt32), math.MinInt32}, {int64(math.MinInt64), math.MinInt64}} {
		cases = append(cases, fl{fmt.Sprintf("%T(%v) leaf", u.in, u.in), []interface{}{u.in, map[string]interface{}{"k": u.in}}, renderNative([]interface{}{u.want, map[string]interface{}{"k": u.want}})})
	}
	for _, cs := range cases {
		c.Eval(1)
		c.Nontrivial("flavour/" + cs.name)
		var got string
		pn, pv := try(func() {
			rv := reflect.ValueOf(cs.in)
			if rv.Kind() == reflect.Map {
				got = renderNative(at.NewObjectFrom(cs.in).NativeDict())
			} else {
				got = renderNative(at.NewListFrom(cs.in).NativeSlice())
			}
		})
		if pn || got != cs.want {
			c.Violate(ev.Violation{Sig: "native/flavour", Msg: fmt.Sprintf("%s: native round trip gives %s (panic=%v %v), want %s", cs.name, got, pn, pv, cs.want), Witness: cs.name}, nil)
		}
	}
	c.Set("typed_flavour_cases", len(cases))
	// "deep-equal" in Go's sense: an input tree whose empty slices/maps are non-nil comes back with non-nil empty
	// slices/maps (reflect.DeepEqual tells nil from empty; so does every marshaller: null vs [])
	empties := []interface{}{
		[]interface{}{},
		[]interface{}{[]interface{}{}},
		[]interface{}{map[string]interface{}{}, []interface{}{}, 1},
		[]interface{}{[]interface{}{[]interface{}{}}},
		map[string]interface{}{},
		map[string]interface{}{"l": []interface{}{}, "o": map[string]interface{}{}},
		map[string]interface{}{"a": map[string]interface{}{"l": []interface{}{}}, "b": []interface{}{map[string]interface{}{}}},
	}
	for i, in := range empties {
		c.Eval(1)
		c.Nontrivial(fmt.Sprintf("empties/%d", i))
		var out, built interface{}
		pn, pv := try(func() {
			if m, ok := in.(map[string]interface{}); ok {
				out = at.NewObjectFrom(m).NativeDict()
				o := at.NewObject()
				for k, v := range m {
					o.Set(k, v)
				}
				built = o.NativeDict()
			} else {
				out = at.NewListFrom(in).NativeSlice()
				built = at.NewList(in.([]interface{})...).NativeSlice()
			}
		})
		if pn || !reflect.DeepEqual(out, in) || !reflect.DeepEqual(built, in) {
			c.Violate(ev.Violation{Sig: "native/empty-not-deep-equal", Msg: fmt.Sprintf("input %#v: native export is %#v / %#v (panic=%v %v): not deep-equal (nil where the input has an empty slice/map?)", in, out, built, pn, pv), Witness: fmt.Sprintf("%#v", in)}, nil)
		}
	}
	// one-level snapshots are never nil either
	if at.NewList().Slice() == nil || at.NewObject().Dict() == nil || at.NewList().NativeSlice() == nil || at.NewObject().NativeDict() == nil {
		c.Violate(ev.Violation{Sig: "native/empty-not-deep-equal", Msg: "Slice()/Dict()/NativeSlice()/NativeDict() of an empty container is nil", Witness: "empty"}, nil)
	}
}

func runC13(c *ev.Ctx) {
	defer sizeSweep(c, "C13")
	nodes1, nodes2 := 5, 4
	if c.Thorough() {
		nodes1, nodes2 = 6, 5
	}
	en := spec.NewEnum([]*spec.V{spec.NilV, spec.B(true), spec.I(1), spec.F(1.5), spec.S("s")}, []string{"", "a", "b"})
	mods := c13AllMods()
	c.Rule(fmt.Sprintf("native trees = every map[string]any / []any tree with <= %d nodes, depth <= 3 over scalars {nil,true,1,1.5,\"s\"} and keys {\"\",a,b}, empty maps/slices at every position included, plus %s. Fidelity: container built from the native value matches it, Native* export contains no container at any depth and is deep-equal to the source (for sources whose empty slices/maps are non-nil the export is compared with reflect.DeepEqual, which tells nil from empty; nil inputs are not judged on that point), also for the same content built by Add/Set; Dict()/Slice() hold exactly what Get returns. Aliasing (explicit-state search): every modification sequence of length 1 on all trees and of length 2 on trees with <= %d nodes out of %d modifications (assign / delete / overwrite / append-into-spare-capacity at every node of the source value, of the Native* export and of the Dict/Slice export; %d container mutations incl. nested SetTF and mutation of a nested container through an exported handle): after every step every other party keeps its previous rendering, and a fresh Native* export equals the container read through Count/Keys/Get. states = distinct final snapshots, transitions = modification steps executed on the implementation.", nodes1, "all 12 typed map/slice flavours with 0..2 entries at the root and nested", nodes2, len(mods), len(c13ContMods)))
	c.Assume("a nested container handle held by Dict()/Slice() is the container's own element: changes through it are visible on both sides by design")
	c13Flavours(c)
	stop := func() bool { return c.Expired() || c.TooMany() }
	par.Stream(c.Workers, stop, func(emit func(*spec.V) bool) { en.Containers(nodes1, 3, emit) }, func(w int, v *spec.V) {
		c.Eval(1)
		if msg, sig := c13Fidelity(v); msg != "" {
			c.Violate(ev.Violation{Sig: sig, Msg: msg, Witness: v.String()}, func() string { _, s := c13Fidelity(v); return s })
			return
		}
		c.AddStates(1)
		for _, m := range mods {
			seq := []c13Mod{m}
			msg, sig, applied, final := c13Run(v, seq)
			if !applied {
				continue
			}
			c.AddTrans(1)
			if msg != "" {
				c.Violate(ev.Violation{Sig: sig, Msg: msg, Witness: map[string]interface{}{"tree": v.String(), "modifications": fmt.Sprint(seq)}}, func() string { _, s, _, _ := c13Run(v, seq); return s })
				continue
			}
			if c.NontrivialNew(ev.Hash(final)) {
				c.AddStates(1)
			}
			c.SampleTag("single", func() interface{} {
				return map[string]interface{}{"tree": v.String(), "modifications": []string{m.String()}}
			})
			if v.Nodes() <= nodes2 {
				for _, m2 := range mods {
					seq2 := []c13Mod{m, m2}
					msg, sig, applied, final := c13Run(v, seq2)
					if !applied {
						continue
					}
					c.AddTrans(1)
					if msg != "" {
						c.Violate(ev.Violation{Sig: sig, Msg: msg, Witness: map[string]interface{}{"tree": v.String(), "modifications": fmt.Sprint(seq2)}}, func() string { _, s, _, _ := c13Run(v, seq2); return s })
						continue
					}
					if c.NontrivialNew(ev.Hash(final)) {
						c.AddStates(1)
					}
					c.SampleTag("pair", func() interface{} {
						return map[string]interface{}{"tree": v.String(), "modifications": []string{m.String(), m2.String()}}
					})
				}
			}
		}
	})
	// states = distinct snapshots reached
	if stop() && c.Expired() {
		c.Cut("deadline reached")
	}
}
