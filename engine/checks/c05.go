package checks

import (
	"fmt"
	"sort"

	at "github.com/DanielSvub/anytype"
	"verif/bfs"
	"verif/ev"
	"verif/model"
)

func init() { register("C05", "model_checking", runC05) }

type unsupportedT struct{ X int }

type c05Cfg struct {
	name     string
	vals     []interface{} // scalar alphabet
	nregs    int           // list registers
	withObj  bool          // register nregs is an object o0
	refs     bool          // containers may be stored into one another (acyclic) and re-registered via Get
	reject   bool          // unsupported values offered to Insert/Replace
	maxLen   int
	depth    int
	scratchN int  // how many of the registers receive derived results (last ones)
	derived  bool // a register may be created as a user type embedding List (derived structure)
}

type W = *model.World

func valName(v interface{}) string { return model.Show(v) }

// vref names a value offered to an operation: a scalar of the scenario alphabet, the
// container held in a register (stored by reference), or an unsupported Go value.
type vref struct {
	K uint8 // 0 scalar alphabet index, 1 register, 2 unsupported
	I int
}

const (
	opNew = iota
	opNewV
	opNewOf
	opNewFrom
	opAdd0
	opAdd1
	opAdd2
	opInsert
	opReplace
	opDelete0
	opDelete1
	opDelete2
	opPop
	opClear
	opReverse
	opSort
	opSubList
	opConcat
	opAliasGet
	opObjNew
	opObjSet
	opObjUnset
	opObserve
	opNewDerived
)

// lop is one list-program operation descriptor.
type lop struct {
	K      uint8
	R, Dst int
	I, J   int
	V, V2  vref
}

func (cfg c05Cfg) refName(v vref) string {
	switch v.K {
	case 0:
		return valName(cfg.vals[v.I])
	case 1:
		if cfg.withObj && v.I == cfg.nregs {
			return "o0"
		}
		return fmt.Sprintf("r%d", v.I)
	}
	return "<unsupported>"
}

func (cfg c05Cfg) label(d lop) string {
	r := fmt.Sprintf("r%d.", d.R)
	switch d.K {
	case opNew:
		return fmt.Sprintf("r%d=NewList()", d.Dst)
	case opNewV:
		return fmt.Sprintf("r%d=NewList(%s)", d.Dst, cfg.refName(d.V))
	case opNewOf:
		return fmt.Sprintf("r%d=NewListOf(%s,%d)", d.Dst, cfg.refName(d.V), d.I)
	case opNewFrom:
		return fmt.Sprintf("r%d=NewListFrom([]any{%s,%s})", d.Dst, cfg.refName(d.V), cfg.refName(d.V2))
	case opAdd0:
		return r + "Add()"
	case opAdd1:
		return r + "Add(" + cfg.refName(d.V) + ")"
	case opAdd2:
		return r + "Add(" + cfg.refName(d.V) + "," + cfg.refName(d.V2) + ")"
	case opInsert:
		return fmt.Sprintf("%sInsert(%d,%s)", r, d.I, cfg.refName(d.V))
	case opReplace:
		return fmt.Sprintf("%sReplace(%d,%s)", r, d.I, cfg.refName(d.V))
	case opDelete0:
		return r + "Delete()"
	case opDelete1:
		return fmt.Sprintf("%sDelete(%d)", r, d.I)
	case opDelete2:
		return fmt.Sprintf("%sDelete(%d,%d)", r, d.I, d.J)
	case opPop:
		return r + "Pop()"
	case opClear:
		return r + "Clear()"
	case opReverse:
		return r + "Reverse()"
	case opSort:
		return r + "Sort()"
	case opSubList:
		return fmt.Sprintf("r%d=r%d.SubList(%d,%d)", d.Dst, d.R, d.I, d.J)
	case opConcat:
		return fmt.Sprintf("r%d=r%d.Concat(r%d)", d.Dst, d.R, d.I)
	case opAliasGet:
		return fmt.Sprintf("r%d=r%d.GetList(%d)", d.Dst, d.R, d.I)
	case opObjNew:
		return "o0=NewObject()"
	case opObjSet:
		return "o0.Set(k," + cfg.refName(d.V) + ")"
	case opObjUnset:
		return "o0.Unset(k)"
	case opObserve:
		return r + "<call every observer>"
	case opNewDerived:
		return fmt.Sprintf("r%d=<user type embedding List>(%s)", d.Dst, cfg.refName(d.V))
	}
	return "?"
}

var opKindNames = []string{"NewList", "NewList", "NewListOf", "NewListFrom", "Add", "Add", "Add", "Insert", "Replace", "Delete", "Delete", "Delete", "Pop", "Clear", "Reverse", "Sort", "SubList", "Concat", "GetList", "NewObject", "Set", "Unset", "observe", "NewDerived"}

// c05Ops lists the enabled operation descriptors of a world.
func c05Ops(cfg c05Cfg) func(w W) []lop {
	return func(w W) []lop {
		var ops []lop
		valuesFor := func(target interface{}) []vref {
			var vs []vref
			for i := range cfg.vals {
				vs = append(vs, vref{0, i})
			}
			if cfg.refs {
				for ri, reg := range w.Regs {
					if reg != nil && !model.Reaches(reg, target) {
						vs = append(vs, vref{1, ri})
					}
				}
			}
			return vs
		}
		scratch := func(r int) int {
			d := cfg.nregs - 1
			if d == r && cfg.nregs > 1 {
				d = cfg.nregs - 2
			}
			return d
		}
		for r := 0; r < cfg.nregs; r++ {
			if w.Regs[r] == nil || r < cfg.nregs-cfg.scratchN || cfg.nregs == 1 {
				ops = append(ops, lop{K: opNew, Dst: r})
				for vi := 0; vi < min(2, len(cfg.vals)); vi++ {
					ops = append(ops, lop{K: opNewV, Dst: r, V: vref{0, vi}})
					for _, n := range []int{0, 1, 3} {
						ops = append(ops, lop{K: opNewOf, Dst: r, V: vref{0, vi}, I: n})
					}
				}
				if len(cfg.vals) >= 2 {
					ops = append(ops, lop{K: opNewFrom, Dst: r, V: vref{0, 0}, V2: vref{0, len(cfg.vals) - 1}})
				}
				if cfg.derived {
					ops = append(ops, lop{K: opNewDerived, Dst: r, V: vref{0, 0}})
				}
				if cfg.refs {
					for ri, reg := range w.Regs {
						if ri != r && reg != nil && (w.Regs[r] == nil || !model.Reaches(reg, w.Regs[r])) {
							ops = append(ops, lop{K: opNewOf, Dst: r, V: vref{1, ri}, I: 2}, lop{K: opNewV, Dst: r, V: vref{1, ri}})
						}
					}
				}
			}
			m, ok := w.Regs[r].(*model.L)
			if !ok || m == nil {
				continue
			}
			n := len(m.E)
			vals := valuesFor(m)
			room := cfg.maxLen - n
			if w.Hist(m)&model.HObservedSinceMut == 0 {
				ops = append(ops, lop{K: opObserve, R: r})
			}
			ops = append(ops, lop{K: opAdd0, R: r})
			if room >= 1 {
				for _, v := range vals {
					ops = append(ops, lop{K: opAdd1, R: r, V: v})
				}
			}
			if room >= 2 {
				ops = append(ops, lop{K: opAdd2, R: r, V: vals[0], V2: vals[len(vals)-1]})
			}
			few := vals
			if len(few) > 3 {
				few = append(append([]vref{}, vals[:2]...), vals[len(vals)-1])
			}
			for _, i := range uniqInts(-1, 0, 1, n-1, n, n+1) {
				valid := i >= 0 && i <= n
				vs := few
				if !valid {
					vs = few[:1]
				} else if room < 1 {
					vs = nil
				}
				for _, v := range vs {
					ops = append(ops, lop{K: opInsert, R: r, I: i, V: v})
				}
				if cfg.reject {
					ops = append(ops, lop{K: opInsert, R: r, I: i, V: vref{2, 0}})
				}
			}
			for _, i := range uniqInts(-1, 0, n-1, n) {
				valid := i >= 0 && i < n
				vs := few
				if !valid {
					vs = few[:1]
				}
				for _, v := range vs {
					ops = append(ops, lop{K: opReplace, R: r, I: i, V: v})
				}
				if cfg.reject {
					ops = append(ops, lop{K: opReplace, R: r, I: i, V: vref{2, 0}})
				}
			}
			ops = append(ops, lop{K: opDelete0, R: r})
			for _, i := range uniqInts(-1, 0, n/2, n-1, n) {
				ops = append(ops, lop{K: opDelete1, R: r, I: i})
			}
			if n >= 2 {
				for _, pr := range [][2]int{{0, n - 1}, {n - 1, 0}, {n - 1, n - 2}} {
					ops = append(ops, lop{K: opDelete2, R: r, I: pr[0], J: pr[1]})
				}
			}
			ops = append(ops, lop{K: opPop, R: r}, lop{K: opClear, R: r}, lop{K: opReverse, R: r})
			if n > 0 && sortDomain(m.E) != 0 {
				ops = append(ops, lop{K: opSort, R: r})
			}
			dst := scratch(r)
			if cfg.nregs > 1 {
				for _, s := range uniqInts(-1, 0, 1, n) {
					for _, e := range uniqInts(0, -1, n-1, n, -n, n+1, -n-1) {
						ops = append(ops, lop{K: opSubList, R: r, Dst: dst, I: s, J: e})
					}
				}
				for j := 0; j < cfg.nregs; j++ {
					om, ok := w.Regs[j].(*model.L)
					if !ok || om == nil || n+len(om.E) > cfg.maxLen {
						continue
					}
					ops = append(ops, lop{K: opConcat, R: r, Dst: dst, I: j})
				}
			}
			if cfg.refs && cfg.nregs > 1 {
				for i, e := range m.E {
					if _, ok := e.(*model.L); ok {
						ops = append(ops, lop{K: opAliasGet, R: r, Dst: dst, I: i})
					}
				}
			}
		}
		if cfg.withObj {
			oi := cfg.nregs
			if w.Regs[oi] == nil {
				ops = append(ops, lop{K: opObjNew})
			} else {
				for _, v := range valuesFor(w.Regs[oi]) {
					ops = append(ops, lop{K: opObjSet, V: v})
				}
				ops = append(ops, lop{K: opObjUnset})
			}
		}
		return ops
	}
}

// c05Apply executes one descriptor on the real containers and on the model.
func c05Apply(cfg c05Cfg) func(w W, d lop) (string, string) {
	return func(w W, d lop) (string, string) {
		val := func(v vref) (mv interface{}, rv interface{}) {
			switch v.K {
			case 0:
				return cfg.vals[v.I], cfg.vals[v.I]
			case 1:
				return w.Regs[v.I], w.ToReal(w.Regs[v.I])
			}
			return nil, unsupportedT{1}
		}
		kind := opKindNames[d.K]
		name := func() string { return cfg.label(d) }
		mut := func(wantPanic bool, real func(l at.List) interface{}, mod func(m *model.L)) (string, string) {
			m := w.Regs[d.R].(*model.L)
			l := w.RL(m)
			var ret interface{}
			pn, pv := try(func() { ret = real(l) })
			if pn != wantPanic {
				return fmt.Sprintf("%s on %s: panicked=%v (%v), documented domain says panic=%v", name(), model.Show(m), pn, pv, wantPanic), "panic-domain/" + kind
			}
			if !pn {
				if ret != interface{}(l) {
					return fmt.Sprintf("%s did not return the receiver", name()), "return/" + kind
				}
				mod(m)
				w.Mutated(m)
				switch d.K {
				case opSort:
					w.Mark(m, model.HSortedEver)
				case opReverse:
					w.Mark(m, model.HReversedEver)
				}
			}
			return "", ""
		}
		derive := func(wantPanic bool, real func(l at.List) at.List, mod func(m *model.L) *model.L) (string, string) {
			m := w.Regs[d.R].(*model.L)
			l := w.RL(m)
			var ret at.List
			pn, pv := try(func() { ret = real(l) })
			if pn != wantPanic {
				return fmt.Sprintf("%s on %s: panicked=%v (%v), documented domain says panic=%v", name(), model.Show(m), pn, pv, wantPanic), "panic-domain/" + kind
			}
			if !pn {
				if ret == nil || ret == l {
					return fmt.Sprintf("%s returned nil or the receiver itself", name()), "return/" + kind
				}
				nm := mod(m)
				w.Bind(nm, ret)
				w.Regs[d.Dst] = nm
			}
			return "", ""
		}
		create := func(real func() at.List, mod func() *model.L) (string, string) {
			var ret at.List
			if pn, pv := try(func() { ret = real() }); pn {
				return fmt.Sprintf("%s panicked: %v", name(), pv), "panic-domain/constructor"
			}
			nm := mod()
			w.Bind(nm, ret)
			w.Regs[d.Dst] = nm
			return "", ""
		}
		n := 0
		if d.K == opObserve {
			return w.Observe(w.Regs[d.R])
		}
		if d.K >= opAdd0 && d.K <= opAliasGet {
			n = len(w.Regs[d.R].(*model.L).E)
		}
		mv, rv := val(d.V)
		mv2, rv2 := val(d.V2)
		unsupported := d.V.K == 2
		switch d.K {
		case opNew:
			return create(func() at.List { return at.NewList() }, func() *model.L { return model.NewL() })
		case opNewV:
			return create(func() at.List { return at.NewList(rv) }, func() *model.L { return model.NewL(mv) })
		case opNewOf:
			return create(func() at.List { return at.NewListOf(rv, d.I) }, func() *model.L {
				m := model.NewL()
				for i := 0; i < d.I; i++ {
					m.E = append(m.E, mv)
				}
				return m
			})
		case opNewFrom:
			return create(func() at.List { return at.NewListFrom([]interface{}{rv, rv2}) }, func() *model.L { return model.NewL(mv, mv2) })
		case opNewDerived:
			return create(func() at.List { return newDL(rv) }, func() *model.L { return model.NewL(mv) })
		case opAdd0:
			return mut(false, func(l at.List) interface{} { return l.Add() }, func(m *model.L) {})
		case opAdd1:
			return mut(false, func(l at.List) interface{} { return l.Add(rv) }, func(m *model.L) { m.E = append(m.E, mv) })
		case opAdd2:
			return mut(false, func(l at.List) interface{} { return l.Add(rv, rv2) }, func(m *model.L) { m.E = append(m.E, mv, mv2) })
		case opInsert:
			i := d.I
			return mut(unsupported || i < 0 || i > n, func(l at.List) interface{} { return l.Insert(i, rv) }, func(m *model.L) {
				m.E = append(m.E, nil)
				copy(m.E[i+1:], m.E[i:])
				m.E[i] = mv
			})
		case opReplace:
			i := d.I
			return mut(unsupported || i < 0 || i >= n, func(l at.List) interface{} { return l.Replace(i, rv) }, func(m *model.L) { m.E[i] = mv })
		case opDelete0:
			return mut(false, func(l at.List) interface{} { return l.Delete() }, func(m *model.L) {})
		case opDelete1:
			i := d.I
			return mut(i < 0 || i >= n, func(l at.List) interface{} { return l.Delete(i) }, func(m *model.L) { m.E = append(m.E[:i], m.E[i+1:]...) })
		case opDelete2:
			a, b := d.I, d.J
			return mut(false, func(l at.List) interface{} { return l.Delete(a, b) }, func(m *model.L) {
				hi, lo := a, b
				if lo > hi {
					hi, lo = lo, hi
				}
				m.E = append(m.E[:hi], m.E[hi+1:]...)
				m.E = append(m.E[:lo], m.E[lo+1:]...)
			})
		case opPop:
			return mut(n == 0, func(l at.List) interface{} { return l.Pop() }, func(m *model.L) { m.E = m.E[:n-1] })
		case opClear:
			return mut(false, func(l at.List) interface{} { return l.Clear() }, func(m *model.L) { m.E = []interface{}{} })
		case opReverse:
			return mut(false, func(l at.List) interface{} { return l.Reverse() }, func(m *model.L) {
				for i, j := 0, len(m.E)-1; i < j; i, j = i+1, j-1 {
					m.E[i], m.E[j] = m.E[j], m.E[i]
				}
			})
		case opSort:
			dom := sortDomain(w.Regs[d.R].(*model.L).E)
			return mut(dom == 2, func(l at.List) interface{} { return l.Sort() }, func(m *model.L) { sortModel(m.E) })
		case opSubList:
			s, e := d.I, d.J
			end := e
			bad := e > n || e < -n
			if !bad && e <= 0 {
				end = n + e
			}
			bad = bad || s > end || s < 0
			return derive(bad, func(l at.List) at.List { return l.SubList(s, e) }, func(m *model.L) *model.L { return model.NewL(m.E[s:end]...) })
		case opConcat:
			other := w.Regs[d.I].(*model.L)
			return derive(false, func(l at.List) at.List { return l.Concat(w.RL(other)) }, func(m *model.L) *model.L {
				return model.NewL(append(append([]interface{}{}, m.E...), other.E...)...)
			})
		case opAliasGet:
			m := w.Regs[d.R].(*model.L)
			el := m.E[d.I].(*model.L)
			got := w.RL(m).GetList(d.I)
			if got != w.RL(el) {
				return fmt.Sprintf("GetList(%d) is not the identical list that was stored", d.I), "identity/GetList"
			}
			w.Regs[d.Dst] = el
			return "", ""
		case opObjNew:
			mo := model.NewO()
			w.Bind(mo, at.NewObject())
			w.Regs[cfg.nregs] = mo
			return "", ""
		case opObjSet:
			mo := w.Regs[cfg.nregs].(*model.O)
			w.RO(mo).Set("k", rv)
			mo.M["k"] = mv
			return "", ""
		case opObjUnset:
			mo := w.Regs[cfg.nregs].(*model.O)
			w.RO(mo).Unset("k")
			delete(mo.M, "k")
			return "", ""
		}
		return "unknown op", "harness/op"
	}
}

func opKind(name string) string {
	for i := 0; i < len(name); i++ {
		if name[i] == '(' {
			return name[:i]
		}
	}
	return name
}

func uniqInts(xs ...int) []int {
	seen := map[int]bool{}
	var out []int
	for _, x := range xs {
		if !seen[x] {
			seen[x] = true
			out = append(out, x)
		}
	}
	return out
}

// sortDomain: 1 = inside C17's domain (homogeneous string/int/float), 2 = first element unsortable (must panic), 0 = outside (not generated)
func sortDomain(e []interface{}) int {
	switch e[0].(type) {
	case int:
		for _, x := range e {
			if _, ok := x.(int); !ok {
				return 0
			}
		}
		return 1
	case float64:
		for _, x := range e {
			if _, ok := x.(float64); !ok {
				return 0
			}
		}
		return 1
	case string:
		for _, x := range e {
			if _, ok := x.(string); !ok {
				return 0
			}
		}
		return 1
	}
	return 2
}

func sortModel(e []interface{}) {
	sort.SliceStable(e, func(i, j int) bool {
		switch a := e[i].(type) {
		case int:
			return a < e[j].(int)
		case float64:
			return a < e[j].(float64)
		default:
			return a.(string) < e[j].(string)
		}
	})
}

func c05System(cfg c05Cfg) *bfs.System[W, lop] {
	n := cfg.nregs
	if cfg.withObj {
		n++
	}
	return &bfs.System[W, lop]{
		Name: cfg.name,
		Inits: []func() W{func() W {
			w := model.NewWorld(n)
			w.ProbeVals = append([]interface{}{}, cfg.vals...)
			w.ProbeKeys = []string{"k", "z"}
			return w
		}},
		Ops:      c05Ops(cfg),
		Apply:    c05Apply(cfg),
		Label:    cfg.label,
		Check:    func(w W) (string, string) { return w.Check() },
		Key:      func(w W) string { return w.Key() },
		MaxDepth: cfg.depth,
		Describe: func(w W) string { return w.Describe() },
	}
}

func runC05(c *ev.Ctx) {
	defer sizeSweep(c, "C05")
	th := c.Thorough()
	pick := func(q, t int) int {
		if th {
			return t
		}
		return q
	}
	cfgs := []c05Cfg{
		{name: "growth (r0 main, r1 scratch, values 1,\"a\")", vals: []interface{}{1, "a"}, nregs: 2, scratchN: 1, maxLen: 6, depth: pick(5, 7)},
		{name: "all-values (one register, nil/true/1/2/1.5/\"a\")", vals: []interface{}{nil, true, 1, 2, 1.5, "a"}, nregs: 1, maxLen: 6, depth: pick(3, 4)},
		{name: "two-derivations (r0 main, r1,r2 results)", vals: []interface{}{1, 2}, nregs: 3, scratchN: 2, maxLen: 5, depth: pick(4, 5)},
		{name: "aliasing (lists and an object nested by reference)", vals: []interface{}{1}, nregs: 3, scratchN: 1, withObj: true, refs: true, maxLen: 4, depth: pick(4, 5)},
		{name: "derived operands (registers may hold a user type embedding List, used as receiver, argument and element)", vals: []interface{}{1, "a"}, nregs: 3, scratchN: 1, refs: true, derived: true, maxLen: 4, depth: pick(4, 5)},
		{name: "rejection (unsupported values)", vals: []interface{}{1, "a"}, nregs: 2, scratchN: 1, reject: true, maxLen: 5, depth: pick(4, 5)},
	}
	c.Rule("explicit-state BFS over programs of list operations on the real code; after every transition every live container is observed through Count/Empty/Get(-1..n)/TypeOf/6 typed getters/Slice/Contains/IndexOf and compared with a slice-based reference heap model (containers by identity); every operation's panic is compared with the documented domain; a panicking operation must leave every container as the model has it (unchanged). States are merged by canonical key = model heap + private len/cap + backing-array sharing. Scenarios: " + fmt.Sprint(len(cfgs)) + " closed alphabets (see samples).")
	c.Assume("Sort is only generated inside C17's domain or with an unsortable first element", "multi-index Delete only with distinct valid indices", "successor states are produced by replaying the operation path on fresh containers")
	for _, cfg := range cfgs {
		if c.Expired() {
			c.Cut("scenario " + cfg.name + " not started (deadline)")
			continue
		}
		res := bfs.Run(c, c05System(cfg))
		c.Set("scenario/"+cfg.name, map[string]interface{}{"states": res.States, "depth_completed": res.DepthCompleted, "depth_bound": cfg.depth, "state_space_closed": res.Exhausted})
	}
}

// focusedListHistories runs the list-program search with only one observer section judged; used by the
// property-specific checks (C16 FormatString, C17 Sort, C18 aggregates) so that results which depend on the
// HISTORY of a container (memoised values, flags) are decided by the check of the property they belong to.
func focusedListHistories(c *ev.Ctx, name, focus string, vals []interface{}, depth int, judge func(w W) bool) bfs.Result {
	sys := c05System(c05Cfg{name: name, vals: vals, nregs: 2, scratchN: 1, maxLen: 4, depth: depth})
	in := sys.Inits[0]
	sys.Inits = []func() W{func() W { w := in(); w.Focus = focus; return w }}
	if judge != nil {
		chk := sys.Check
		sys.Check = func(w W) (string, string) {
			if !judge(w) {
				return "", ""
			}
			return chk(w)
		}
	}
	return bfs.Run(c, sys)
}

func focusedObjectHistories(c *ev.Ctx, name, focus string, depth int) bfs.Result {
	sys := c06System(c06Cfg{name: name, keys: []string{"a", "b", "c"}, vals: []interface{}{1, "x"}, nobj: 2, maxLen: 3, depth: depth})
	in := sys.Inits[0]
	sys.Inits = []func() W{func() W { w := in(); w.Focus = focus; return w }}
	return bfs.Run(c, sys)
}

func anySorted(w W) bool {
	for _, c := range w.Containers() {
		if w.Hist(c)&model.HSortedEver != 0 {
			return true
		}
	}
	return false
}
