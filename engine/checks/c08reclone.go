package checks

import (
	"fmt"
	"sync/atomic"

	at "github.com/DanielSvub/anytype"

	"verif/ev"
	"verif/par"
	"verif/spec"
)

// Clone asked AGAIN after an in-place edit (lesson of round 10: state kept between calls, e.g. a remembered clone
// that only the container's own mutators forget). For every tree and every container in it (root included):
// k1 := Clone(); the container is edited through its own handle; k2 := Clone(). k2 must show the edit, k1 must not,
// and original, k1 and k2 must be pairwise free of common containers; a further edit inside k2 leaves the others alone.

func handlesOf(c interface{}, set map[interface{}]bool) {
	switch x := c.(type) {
	case at.List:
		set[x] = true
		for i := 0; i < x.Count(); i++ {
			handlesOf(x.Get(i), set)
		}
	case at.Object:
		set[x] = true
		for _, k := range x.Keys().StringSlice() {
			handlesOf(x.Get(k), set)
		}
	}
}

func cloneRoot(c interface{}) interface{} {
	if l, ok := c.(at.List); ok {
		return l.Clone()
	}
	return c.(at.Object).Clone()
}

func specAdd9(v *spec.V, p []nstep) *spec.V {
	return specEdit(v, p, func(n *spec.V) *spec.V {
		if n.K == spec.Lst {
			return spec.L(append(append([]*spec.V{}, n.L...), spec.I(9))...)
		}
		return spec.O(append(append([]spec.KV{}, n.KV...), spec.P(nestedEditKey, spec.I(9)))...)
	})
}

func c08RecloneOne(v *spec.V) (msg, sig string, evals int) {
	paths := [][]nstep{nil}
	nestedPaths(v, nil, &paths)
	for _, p := range paths {
		c := v.Build()
		var k1, k2 interface{}
		if pn, _ := try(func() { k1 = cloneRoot(c) }); pn || spec.Match(k1, v) != "" {
			return "", "", evals // the main search reports it
		}
		if !c07EditAt(c, p, false) {
			continue
		}
		v2 := specAdd9(v, p)
		evals++
		if pn, pv := try(func() { k2 = cloneRoot(c) }); pn {
			return fmt.Sprintf("tree %s: Clone, Add(9)/Set(%q,9) on the container at %v, Clone again: panic %v", v, nestedEditKey, p, pv), "reclone/panic", evals
		}
		where := fmt.Sprintf("tree %s: k1 := Clone(); Add(9)/Set(%q,9) on the container at %v of the original; k2 := Clone()", v, nestedEditKey, p)
		if m := spec.Match(k2, v2); m != "" {
			return where + ": the second clone does not show the edited content: " + m, "reclone/stale", evals
		}
		if m := spec.Match(k1, v); m != "" {
			return where + ": the first clone changed: " + m, "reclone/first-clone-changed", evals
		}
		if m := spec.Match(c, v2); m != "" {
			return where + ": the original does not hold the edited content: " + m, "reclone/original", evals
		}
		hc, h1, h2 := map[interface{}]bool{}, map[interface{}]bool{}, map[interface{}]bool{}
		handlesOf(c, hc)
		handlesOf(k1, h1)
		handlesOf(k2, h2)
		for h := range h2 {
			if hc[h] || h1[h] {
				return where + ": the second clone contains a container that is also reachable from the original or from the first clone", "reclone/shared-container", evals
			}
		}
		for h := range h1 {
			if hc[h] {
				return where + ": the first clone shares a container with the original", "reclone/shared-container", evals
			}
		}
		// an edit inside the second clone is seen by nobody else
		if c07EditAt(k2, p, false) {
			evals++
			if m := spec.Match(k1, v); m != "" {
				return where + "; then the same edit inside k2: the first clone changed: " + m, "reclone/clone-edit-leaks", evals
			}
			if m := spec.Match(c, v2); m != "" {
				return where + "; then the same edit inside k2: the original changed: " + m, "reclone/clone-edit-leaks", evals
			}
		}
	}
	return "", "", evals
}

func c08Reclone(c *ev.Ctx, en *spec.Enum, maxNodes, maxDepth int) {
	var total int64
	par.Stream(c.Workers, func() bool { return c.Expired() || c.TooMany() }, func(emit func(*spec.V) bool) { en.Containers(maxNodes, maxDepth, emit) }, func(w int, v *spec.V) {
		var msg, sig string
		var k int
		if pn, pv := try(func() { msg, sig, k = c08RecloneOne(v) }); pn {
			msg, sig = fmt.Sprintf("Clone after in-place edits of %s: panic %v", v, pv), "reclone/panic"
		}
		atomic.AddInt64(&total, int64(k))
		if msg != "" {
			c.Violate(ev.Violation{Sig: sig, Msg: msg, Witness: map[string]interface{}{"tree": v.String()}}, func() string {
				s := ""
				if pn, _ := try(func() { _, s, _ = c08RecloneOne(v) }); pn {
					return "reclone/panic"
				}
				return s
			})
		}
	})
	c.Set("clone_again_after_in_place_edit", map[string]interface{}{"second_clones_checked": total, "max_nodes": maxNodes,
		"rule": "every tree x every container in it (root included): Clone, edit the container through its own handle, Clone again; second clone shows the edit, first does not, original/first/second pairwise share no container, an edit inside the second clone leaks nowhere"})
}
