package checks

import (
	"time"
	"fmt"

	at "github.com/DanielSvub/anytype"
	"verif/bfs"
	"verif/ev"
	"verif/model"
)

func init() { register("C06", "model_checking", runC06) }

type c06Cfg struct {
	name   string
	keys   []string
	vals   []interface{}
	nobj   int // object registers; the last one is the scratch register for Merge/Pluck results
	list   bool
	refs   bool
	maxLen int
	depth  int
}

const (
	oNew = iota
	oNewKV
	oNewFrom
	oSet0
	oSet1
	oSet2
	oSetOdd
	oSetOddAfterPair
	oSetBadKey
	oSetBadKeyAfterPair
	oUnset0
	oUnset1
	oUnset2
	oClear
	oMerge
	oPluck0
	oPluck1
	oPluck2
	oListNew
	oListAdd
	oObserve
)

type c06Named string

type oop struct {
	K      uint8
	R, Dst int
	K1, K2 int // key indices
	V, V2  vref
	J      int
}

func (cfg c06Cfg) regName(i int) string {
	if cfg.list && i == cfg.nobj {
		return "l0"
	}
	return fmt.Sprintf("o%d", i)
}

func (cfg c06Cfg) refName(v vref) string {
	if v.K == 0 {
		return valName(cfg.vals[v.I])
	}
	return cfg.regName(v.I)
}

func (cfg c06Cfg) label(d oop) string {
	k := func(i int) string { return fmt.Sprintf("%q", cfg.keys[i]) }
	r := cfg.regName(d.R) + "."
	switch d.K {
	case oNew:
		return cfg.regName(d.Dst) + "=NewObject()"
	case oNewKV:
		return fmt.Sprintf("%s=NewObject(%s,%s)", cfg.regName(d.Dst), k(d.K1), cfg.refName(d.V))
	case oNewFrom:
		return fmt.Sprintf("%s=NewObjectFrom(map[string]any{%s:%s})", cfg.regName(d.Dst), k(d.K1), cfg.refName(d.V))
	case oSet0:
		return r + "Set()"
	case oSet1:
		return fmt.Sprintf("%sSet(%s,%s)", r, k(d.K1), cfg.refName(d.V))
	case oSet2:
		return fmt.Sprintf("%sSet(%s,%s,%s,%s)", r, k(d.K1), cfg.refName(d.V), k(d.K2), cfg.refName(d.V2))
	case oSetOdd:
		return fmt.Sprintf("%sSet(%s)", r, k(d.K1))
	case oSetOddAfterPair:
		return fmt.Sprintf("%sSet(%s,%s,%s)", r, k(d.K1), cfg.refName(d.V), k(d.K2))
	case oSetBadKey:
		return fmt.Sprintf("%sSet(7,%s)", r, cfg.refName(d.V))
	case oSetBadKeyAfterPair:
		return fmt.Sprintf("%sSet(%s,%s,7,%s)", r, k(d.K1), cfg.refName(d.V), cfg.refName(d.V2))
	case oUnset0:
		return r + "Unset()"
	case oUnset1:
		return fmt.Sprintf("%sUnset(%s)", r, k(d.K1))
	case oUnset2:
		return fmt.Sprintf("%sUnset(%s,%s)", r, k(d.K1), k(d.K2))
	case oClear:
		return r + "Clear()"
	case oMerge:
		return fmt.Sprintf("%s=%sMerge(%s)", cfg.regName(d.Dst), r, cfg.regName(d.J))
	case oPluck0:
		return fmt.Sprintf("%s=%sPluck()", cfg.regName(d.Dst), r)
	case oPluck1:
		return fmt.Sprintf("%s=%sPluck(%s)", cfg.regName(d.Dst), r, k(d.K1))
	case oPluck2:
		return fmt.Sprintf("%s=%sPluck(%s,%s)", cfg.regName(d.Dst), r, k(d.K1), k(d.K2))
	case oListNew:
		return "l0=NewList()"
	case oListAdd:
		return "l0.Add(" + cfg.refName(d.V) + ")"
	case oObserve:
		return r + "<call every observer>"
	}
	return "?"
}

var oKindNames = []string{"NewObject", "NewObject", "NewObjectFrom", "Set", "Set", "Set", "Set-odd", "Set-odd", "Set-nonstring-key", "Set-nonstring-key", "Unset", "Unset", "Unset", "Clear", "Merge", "Pluck", "Pluck", "Pluck", "NewList", "Add", "observe"}

func c06Ops(cfg c06Cfg) func(w W) []oop {
	return func(w W) []oop {
		var ops []oop
		nk := len(cfg.keys)
		valuesFor := func(target interface{}) []vref {
			var vs []vref
			for i := range cfg.vals {
				vs = append(vs, vref{0, i})
			}
			if cfg.refs {
				for ri, reg := range w.Regs {
					if reg != nil && !model.Reaches(reg, target) {
						vs = append(vs, vref{1, ri})
					}
				}
			}
			return vs
		}
		scratch := cfg.nobj - 1
		for r := 0; r < cfg.nobj; r++ {
			if r != scratch || cfg.nobj == 1 || w.Regs[r] == nil {
				ops = append(ops, oop{K: oNew, Dst: r})
				ops = append(ops, oop{K: oNewKV, Dst: r, K1: 0, V: vref{0, 0}})
				ops = append(ops, oop{K: oNewFrom, Dst: r, K1: nk - 1, V: vref{0, len(cfg.vals) - 1}})
			}
			m, ok := w.Regs[r].(*model.O)
			if !ok || m == nil {
				continue
			}
			vals := valuesFor(m)
			if w.Hist(m)&model.HObservedSinceMut == 0 {
				ops = append(ops, oop{K: oObserve, R: r})
			}
			ops = append(ops, oop{K: oSet0, R: r}, oop{K: oUnset0, R: r}, oop{K: oClear, R: r})
			for k := 0; k < nk; k++ {
				_, has := m.M[cfg.keys[k]]
				if has || len(m.M) < cfg.maxLen {
					for _, v := range vals {
						ops = append(ops, oop{K: oSet1, R: r, K1: k, V: v})
					}
				}
				ops = append(ops, oop{K: oUnset1, R: r, K1: k})
				ops = append(ops, oop{K: oPluck1, R: r, Dst: scratch, K1: k})
			}
			// two pairs: same key twice (last wins) and two different keys
			v0, v1 := vals[0], vals[len(vals)-1]
			if len(m.M)+2 <= cfg.maxLen {
				ops = append(ops, oop{K: oSet2, R: r, K1: 0, V: v0, K2: 0, V2: v1})
				ops = append(ops, oop{K: oSet2, R: r, K1: 0, V: v1, K2: nk - 1, V2: v0})
			}
			ops = append(ops, oop{K: oSetOdd, R: r, K1: 0})
			ops = append(ops, oop{K: oSetBadKey, R: r, V: v0})
			if len(m.M) < cfg.maxLen {
				ops = append(ops, oop{K: oSetOddAfterPair, R: r, K1: nk - 1, V: v0, K2: 0})
				ops = append(ops, oop{K: oSetBadKeyAfterPair, R: r, K1: nk - 1, V: v1, V2: v0})
			}
			ops = append(ops, oop{K: oUnset2, R: r, K1: 0, K2: nk - 1}, oop{K: oUnset2, R: r, K1: nk - 1, K2: nk - 1})
			if cfg.nobj > 1 {
				ops = append(ops, oop{K: oPluck0, R: r, Dst: scratch})
				ops = append(ops, oop{K: oPluck2, R: r, Dst: scratch, K1: 0, K2: nk - 1}, oop{K: oPluck2, R: r, Dst: scratch, K1: nk - 1, K2: nk - 1})
				for j := 0; j < cfg.nobj; j++ {
					if om, ok := w.Regs[j].(*model.O); ok && om != nil {
						ops = append(ops, oop{K: oMerge, R: r, Dst: scratch, J: j})
					}
				}
			}
		}
		if cfg.list {
			li := cfg.nobj
			if w.Regs[li] == nil {
				ops = append(ops, oop{K: oListNew})
			} else if ml := w.Regs[li].(*model.L); len(ml.E) < 2 {
				for _, v := range valuesFor(ml) {
					ops = append(ops, oop{K: oListAdd, V: v})
				}
			}
		}
		return ops
	}
}

func c06Apply(cfg c06Cfg) func(w W, d oop) (string, string) {
	return func(w W, d oop) (string, string) {
		val := func(v vref) (interface{}, interface{}) {
			if v.K == 0 {
				return cfg.vals[v.I], cfg.vals[v.I]
			}
			return w.Regs[v.I], w.ToReal(w.Regs[v.I])
		}
		kind := oKindNames[d.K]
		name := func() string { return cfg.label(d) }
		mv, rv := val(d.V)
		mv2, rv2 := val(d.V2)
		key := func(i int) string { return cfg.keys[i] }
		mut := func(wantPanic bool, real func(o at.Object) interface{}, mod func(m *model.O)) (string, string) {
			m := w.Regs[d.R].(*model.O)
			o := w.RO(m)
			var ret interface{}
			pn, pv := try(func() { ret = real(o) })
			if pn != wantPanic {
				return fmt.Sprintf("%s on %s: panicked=%v (%v), statement says panic=%v", name(), model.Show(m), pn, pv, wantPanic), "panic-domain/" + kind
			}
			if !pn {
				if ret != interface{}(o) {
					return fmt.Sprintf("%s did not return the receiver", name()), "return/" + kind
				}
				mod(m)
				w.Mutated(m)
			}
			return "", ""
		}
		// a panicking Set may have applied the pairs preceding the offending one (statement silent):
		// accept "unchanged" or "leading pair applied", whichever the receiver shows
		panickingSet := func(real func(o at.Object), leadKey string, leadM, leadR interface{}, hasLead bool) (string, string) {
			m := w.Regs[d.R].(*model.O)
			o := w.RO(m)
			pn, _ := try(func() { real(o) })
			if !pn {
				return fmt.Sprintf("%s on %s did not panic", name(), model.Show(m)), "panic-domain/" + kind
			}
			if hasLead {
				old, had := m.M[leadKey]
				if o.KeyExists(leadKey) && (!had || !sameReal(w, o.Get(leadKey), old)) {
					m.M[leadKey] = leadM // the implementation applied the leading pair before panicking
				}
				w.Mutated(m)
			}
			return "", ""
		}
		create := func(real func() at.Object, mod func() *model.O) (string, string) {
			var ret at.Object
			if pn, pv := try(func() { ret = real() }); pn {
				return fmt.Sprintf("%s panicked: %v", name(), pv), "panic-domain/constructor"
			}
			nm := mod()
			w.Bind(nm, ret)
			w.Regs[d.Dst] = nm
			return "", ""
		}
		// derived object: top-level keys/values predicted by the model; nested containers may be shared
		// or copied (statement allows both): adopt what the implementation exhibits, but the content
		// must be structurally equal to the predicted value
		// identical: keys whose value in the result must be the IDENTICAL container the model names (Merge: "prefers
		// the argument's value" - a value of container kind is a reference, so the result holds the argument's own
		// container; for the receiver's side the statement is silent and the unchanged tree copies)
		var identical map[string]interface{}
		derive := func(wantPanic bool, real func(o at.Object) at.Object, predict func(m *model.O) map[string]interface{}) (string, string) {
			m := w.Regs[d.R].(*model.O)
			o := w.RO(m)
			var ret at.Object
			pn, pv := try(func() { ret = real(o) })
			if pn != wantPanic {
				return fmt.Sprintf("%s on %s: panicked=%v (%v), statement says panic=%v", name(), model.Show(m), pn, pv, wantPanic), "panic-domain/" + kind
			}
			if pn {
				return "", ""
			}
			if ret == nil || ret == o {
				return fmt.Sprintf("%s returned nil or the receiver itself", name()), "return/" + kind
			}
			want := predict(m)
			nm := model.NewO()
			w.Bind(nm, ret)
			if ret.Count() != len(want) {
				return fmt.Sprintf("%s on %s gives %s, want keys %v", name(), model.Show(m), ret.String(), keysOf(want)), "derived/" + kind
			}
			for k, wv := range want {
				if !ret.KeyExists(k) {
					return fmt.Sprintf("%s on %s gives %s which lacks key %q", name(), model.Show(m), ret.String(), k), "derived/" + kind
				}
				if must, ok := identical[k]; ok {
					if real := w.Real(must); real != nil && ret.Get(k) != real {
						return fmt.Sprintf("%s on %s: result[%q] is not the argument's own container (a copy or something else was stored)", name(), model.Show(m), k), "derived-identity/" + kind
					}
				}
				got := w.Adopt(ret.Get(k))
				if !model.DeepEqual(got, wv) {
					return fmt.Sprintf("%s on %s: result[%q] = %s, want %s", name(), model.Show(m), k, model.Show(got), model.Show(wv)), "derived/" + kind
				}
				nm.M[k] = got
			}
			w.Regs[d.Dst] = nm
			return "", ""
		}
		if d.K == oObserve {
			return w.Observe(w.Regs[d.R])
		}
		switch d.K {
		case oNew:
			return create(func() at.Object { return at.NewObject() }, func() *model.O { return model.NewO() })
		case oNewKV:
			return create(func() at.Object { return at.NewObject(key(d.K1), rv) }, func() *model.O { m := model.NewO(); m.M[key(d.K1)] = mv; return m })
		case oNewFrom:
			return create(func() at.Object { return at.NewObjectFrom(map[string]interface{}{key(d.K1): rv}) }, func() *model.O { m := model.NewO(); m.M[key(d.K1)] = mv; return m })
		case oSet0:
			return mut(false, func(o at.Object) interface{} { return o.Set() }, func(m *model.O) {})
		case oSet1:
			return mut(false, func(o at.Object) interface{} { return o.Set(key(d.K1), rv) }, func(m *model.O) { m.M[key(d.K1)] = mv })
		case oSet2:
			return mut(false, func(o at.Object) interface{} { return o.Set(key(d.K1), rv, key(d.K2), rv2) }, func(m *model.O) { m.M[key(d.K1)] = mv; m.M[key(d.K2)] = mv2 })
		case oSetOdd:
			return panickingSet(func(o at.Object) { o.Set(key(d.K1)) }, "", nil, nil, false)
		case oSetOddAfterPair:
			// an odd argument COUNT is a defect of the call as a whole, known before any pair is looked at: the call
			// is rejected and the receiver stays as it was (the full observation after this transition compares it
			// with the unchanged model). Only for a bad KEY met in the middle of the list is the statement silent.
			return panickingSet(func(o at.Object) { o.Set(key(d.K1), rv, key(d.K2)) }, "", nil, nil, false)
		case oSetBadKey:
			// every kind of non-string key must be rejected: numbers, bool, nil, byte slices, named string types, values
			// with a String() method (time.Duration, errors - and the library's own Lists and Objects)
			m := w.Regs[d.R].(*model.O)
			o := w.RO(m)
			for _, bad := range []interface{}{7, 2.5, true, nil, []byte("k"), c06Named("k"), time.Duration(5), fmt.Errorf("k"), at.NewList(1, 2), at.NewObject("k", "v"), o, []string{"k"}, 'k'} {
				bad := bad
				if pn, _ := try(func() { o.Set(bad, 1) }); !pn {
					return fmt.Sprintf("Set(%T(%v), 1) on %s did not panic", bad, bad, model.Show(m)), "panic-domain/bad-key"
				}
				if pn, _ := try(func() { at.NewObject(bad, 1) }); !pn {
					return fmt.Sprintf("NewObject(%T(%v), 1) did not panic", bad, bad), "panic-domain/bad-key"
				}
			}
			return "", ""
		case oSetBadKeyAfterPair:
			return panickingSet(func(o at.Object) { o.Set(key(d.K1), rv, 7, rv2) }, key(d.K1), mv, rv, true)
		case oUnset0:
			return mut(false, func(o at.Object) interface{} { return o.Unset() }, func(m *model.O) {})
		case oUnset1:
			return mut(false, func(o at.Object) interface{} { return o.Unset(key(d.K1)) }, func(m *model.O) { delete(m.M, key(d.K1)) })
		case oUnset2:
			return mut(false, func(o at.Object) interface{} { return o.Unset(key(d.K1), key(d.K2)) }, func(m *model.O) { delete(m.M, key(d.K1)); delete(m.M, key(d.K2)) })
		case oClear:
			return mut(false, func(o at.Object) interface{} { return o.Clear() }, func(m *model.O) { m.M = map[string]interface{}{} })
		case oMerge:
			other := w.Regs[d.J].(*model.O)
			identical = map[string]interface{}{}
			for k, v := range other.M {
				switch v.(type) {
				case *model.L, *model.O:
					identical[k] = v
				}
			}
			return derive(false, func(o at.Object) at.Object { return o.Merge(w.RO(other)) }, func(m *model.O) map[string]interface{} {
				out := map[string]interface{}{}
				for k, v := range m.M {
					out[k] = v
				}
				for k, v := range other.M {
					out[k] = v
				}
				return out
			})
		case oPluck0:
			return derive(false, func(o at.Object) at.Object { return o.Pluck() }, func(m *model.O) map[string]interface{} { return map[string]interface{}{} })
		case oPluck1, oPluck2:
			ks := []string{key(d.K1)}
			if d.K == oPluck2 {
				ks = append(ks, key(d.K2))
			}
			m := w.Regs[d.R].(*model.O)
			missing := false
			for _, k := range ks {
				if _, ok := m.M[k]; !ok {
					missing = true
				}
			}
			return derive(missing, func(o at.Object) at.Object { return o.Pluck(ks...) }, func(m *model.O) map[string]interface{} {
				out := map[string]interface{}{}
				for _, k := range ks {
					out[k] = m.M[k]
				}
				return out
			})
		case oListNew:
			ml := model.NewL()
			w.Bind(ml, at.NewList())
			w.Regs[cfg.nobj] = ml
			return "", ""
		case oListAdd:
			ml := w.Regs[cfg.nobj].(*model.L)
			w.RL(ml).Add(rv)
			ml.E = append(ml.E, mv)
			return "", ""
		}
		return "unknown op", "harness/op"
	}
}

// sameReal: does the real value correspond to the model value (scalars by value, containers by binding)?
func sameReal(w W, rv interface{}, mv interface{}) bool {
	switch mv.(type) {
	case *model.L, *model.O:
		return w.Real(mv) == rv
	}
	return sameVal(rv, mv)
}

func keysOf(m map[string]interface{}) []string {
	out := make([]string, 0, len(m))
	for k := range m {
		out = append(out, k)
	}
	sortedStrings(out)
	return out
}

func c06System(cfg c06Cfg) *bfs.System[W, oop] {
	n := cfg.nobj
	if cfg.list {
		n++
	}
	return &bfs.System[W, oop]{
		Name: cfg.name,
		Inits: []func() W{func() W {
			w := model.NewWorld(n)
			w.ProbeVals = append([]interface{}{}, cfg.vals...)
			w.ProbeKeys = append([]string{"zz"}, cfg.keys...)
			return w
		}},
		Ops: c06Ops(cfg), Apply: c06Apply(cfg), Label: cfg.label,
		Check:    func(w W) (string, string) { return w.Check() },
		Key:      func(w W) string { return w.Key() },
		MaxDepth: cfg.depth,
		Describe: func(w W) string { return w.Describe() },
	}
}

func runC06(c *ev.Ctx) {
	defer sizeSweep(c, "C06")
	th := c.Thorough()
	pick := func(q, t int) int {
		if th {
			return t
		}
		return q
	}
	keys := []string{"", "a", "b", "a.b", "#0"}
	if th {
		keys = append(keys, `"`, string(rune(0xE9)))
	}
	cfgs := []c06Cfg{
		{name: "keys (o0 main, o1 results; awkward keys)", keys: keys, vals: []interface{}{1, "x"}, nobj: 2, maxLen: 4, depth: pick(6, 8)},
		{name: "values (nil/true/1/1.0/\"a\")", keys: []string{"a", "b"}, vals: []interface{}{nil, true, 1, 1.0, "a"}, nobj: 2, maxLen: 3, depth: pick(6, 8)},
		{name: "merge-pluck (o0,o1 mains, o2 results)", keys: []string{"a", "b"}, vals: []interface{}{1, 2}, nobj: 3, maxLen: 3, depth: pick(6, 8)},
		{name: "aliasing (objects and a list nested by reference)", keys: []string{"a", "b"}, vals: []interface{}{1}, nobj: 3, list: true, refs: true, maxLen: 3, depth: pick(6, 8)},
	}
	c.Rule("explicit-state BFS over programs of object operations on the real code; after every transition every live container is observed through Count/Empty/KeyExists/TypeOf/Get/6 typed getters for every alphabet key, Keys() as a set, Values() as a multiset with identity, Dict(), Contains/KeyOf for every alphabet value and live container, and compared with a map-based reference heap model; panics compared with the statement (odd Set, non-string key, Pluck of a missing key); nested containers of Merge/Pluck results may be shared or copied - the model adopts what the implementation exhibits but requires equal content. States merged by canonical key.")
	c.Assume("after a panicking Set the receiver may show the pairs preceding the offending one (statement silent); every other container must be unchanged", "successor states are produced by replaying the operation path on fresh containers")
	for _, cfg := range cfgs {
		if c.Expired() {
			c.Cut("scenario " + cfg.name + " not started (deadline)")
			continue
		}
		res := bfs.Run(c, c06System(cfg))
		c.Set("scenario/"+cfg.name, map[string]interface{}{"states": res.States, "depth_completed": res.DepthCompleted, "depth_bound": cfg.depth, "state_space_closed": res.Exhausted})
	}
}
