package checks

import (
	"fmt"
	"reflect"
	"sort"

	at "github.com/DanielSvub/anytype"
	"verif/bfs"
	"verif/ev"
)

func init() { register("C19", "model_checking", runC19) }

// ---- user types embedding a List / an Object (one and two embedding levels), registered with Init
type DL struct {
	at.List
	tag string
}
type DDL struct {
	*DL
	extra int
}
type DO struct {
	at.Object
	tag string
}
type DDO struct {
	*DO
	extra int
}

// user types that embed a container AND satisfy further interfaces of the standard library (error, a Stringer of
// their own, json.Marshaler): they are still Lists/Objects and must be treated as such wherever a value is stored
type DLerr struct {
	at.List
	code int
}

func (d *DLerr) Error() string                { return fmt.Sprintf("list error %d", d.code) }
func (d *DLerr) MarshalJSON() ([]byte, error) { return []byte("null"), nil }

type DOerr struct {
	at.Object
	code int
}

func (d *DOerr) Error() string                { return fmt.Sprintf("object error %d", d.code) }
func (d *DOerr) MarshalText() ([]byte, error) { return []byte("text"), nil }
func (d *DOerr) GoString() string             { return "DOerr" }

func newDLerr(vals ...interface{}) *DLerr {
	d := &DLerr{List: at.NewList(vals...), code: 7}
	d.Init(d)
	return d
}
func newDOerr(vals ...interface{}) *DOerr {
	d := &DOerr{Object: at.NewObject(vals...), code: 7}
	d.Init(d)
	return d
}

func newDL(vals ...interface{}) *DL {
	d := &DL{List: at.NewList(vals...), tag: "dl"}
	d.Init(d)
	return d
}
func newDDL(vals ...interface{}) *DDL {
	d := &DDL{DL: newDL(vals...), extra: 1}
	d.Init(d)
	return d
}
func newDO(vals ...interface{}) *DO {
	d := &DO{Object: at.NewObject(vals...), tag: "do"}
	d.Init(d)
	return d
}
func newDDO(vals ...interface{}) *DDO {
	d := &DDO{DO: newDO(vals...), extra: 1}
	d.Init(d)
	return d
}

type c19S struct {
	L     at.List   // outer derived list (nil when object)
	O     at.Object // outer derived object
	Level int
}

type c19ListOp struct {
	Name  string
	Guard func(l at.List) bool
	Call  func(l at.List) at.List
}

type c19ObjOp struct {
	Name  string
	Guard func(o at.Object) bool
	Call  func(o at.Object) at.Object
}

func always(at.List) bool     { return true }
func nonEmpty(l at.List) bool { return l.Count() > 0 }
func small(l at.List) bool    { return l.Count() <= 4 }

func c19ListOps() []c19ListOp {
	homog := func(l at.List) bool {
		if l.Count() == 0 {
			return false
		}
		return l.AllInts() || l.AllStrings() || l.AllFloats()
	}
	firstIs := func(t at.Type) func(at.List) bool {
		return func(l at.List) bool { return l.Count() > 0 && l.Count() <= 4 && l.TypeOf(0) == t }
	}
	firstNot := func(ts ...at.Type) func(at.List) bool {
		return func(l at.List) bool {
			if l.Count() == 0 || l.Count() > 4 {
				return false
			}
			for _, t := range ts {
				if l.TypeOf(0) == t {
					return false
				}
			}
			return true
		}
	}
	return []c19ListOp{
		{"Add()", always, func(l at.List) at.List { return l.Add() }},
		{"Add(1)", small, func(l at.List) at.List { return l.Add(1) }},
		{"Add(\"a\",2.5)", small, func(l at.List) at.List { return l.Add("a", 2.5) }},
		{"Insert(0,9) front", func(l at.List) bool { return nonEmpty(l) && small(l) }, func(l at.List) at.List { return l.Insert(0, 9) }},
		{"Insert(n,9) end", small, func(l at.List) at.List { return l.Insert(l.Count(), 9) }},
		{"Insert(1,9) middle", func(l at.List) bool { return l.Count() >= 2 && small(l) }, func(l at.List) at.List { return l.Insert(1, 9) }},
		{"Replace(0,9)", nonEmpty, func(l at.List) at.List { return l.Replace(0, 9) }},
		{"Delete()", always, func(l at.List) at.List { return l.Delete() }},
		{"Delete(0)", nonEmpty, func(l at.List) at.List { return l.Delete(0) }},
		{"Delete(0,1)", func(l at.List) bool { return l.Count() >= 2 }, func(l at.List) at.List { return l.Delete(0, 1) }},
		{"Pop()", nonEmpty, func(l at.List) at.List { return l.Pop() }},
		{"Clear()", always, func(l at.List) at.List { return l.Clear() }},
		{"Sort()", homog, func(l at.List) at.List { return l.Sort() }},
		{"Reverse()", always, func(l at.List) at.List { return l.Reverse() }},
		{"ForEach", always, func(l at.List) at.List { return l.ForEach(func(int, interface{}) {}) }},
		{"ForEachValue", always, func(l at.List) at.List { return l.ForEachValue(func(interface{}) {}) }},
		{"ForEachObject", always, func(l at.List) at.List { return l.ForEachObject(func(at.Object) {}) }},
		{"ForEachList", always, func(l at.List) at.List { return l.ForEachList(func(at.List) {}) }},
		{"ForEachString", always, func(l at.List) at.List { return l.ForEachString(func(string) {}) }},
		{"ForEachBool", always, func(l at.List) at.List { return l.ForEachBool(func(bool) {}) }},
		{"ForEachInt", always, func(l at.List) at.List { return l.ForEachInt(func(int) {}) }},
		{"ForEachFloat", always, func(l at.List) at.List { return l.ForEachFloat(func(float64) {}) }},
		{"ForEachAsync", always, func(l at.List) at.List { return l.ForEachAsync(func(int, interface{}) {}) }},
		{"SetTF(#n,9) leaf append", small, func(l at.List) at.List { return l.SetTF(fmt.Sprintf("#%d", l.Count()), 9) }},
		{"SetTF(#0,9) leaf replace", nonEmpty, func(l at.List) at.List { return l.SetTF("#0", 9) }},
		{"SetTF(#n+1,9) leaf pad", func(l at.List) bool { return l.Count() <= 3 }, func(l at.List) at.List { return l.SetTF(fmt.Sprintf("#%d", l.Count()+1), 9) }},
		{"SetTF(#n.k,9) dot pad", func(l at.List) bool { return l.Count() <= 3 }, func(l at.List) at.List { return l.SetTF(fmt.Sprintf("#%d.k", l.Count()), 9) }},
		{"SetTF(#0.k,9) dot reuse", firstIs(at.TypeObject), func(l at.List) at.List { return l.SetTF("#0.k", 9) }},
		{"SetTF(#0.k,9) dot replace", firstNot(at.TypeObject), func(l at.List) at.List { return l.SetTF("#0.k", 9) }},
		{"SetTF(#n#0,9) hash pad", func(l at.List) bool { return l.Count() <= 3 }, func(l at.List) at.List { return l.SetTF(fmt.Sprintf("#%d#0", l.Count()), 9) }},
		{"SetTF(#0#0,9) hash reuse", firstIs(at.TypeList), func(l at.List) at.List { return l.SetTF("#0#0", 9) }},
		{"SetTF(#0#0,9) hash replace", firstNot(at.TypeList), func(l at.List) at.List { return l.SetTF("#0#0", 9) }},
		{"UnsetTF(#0) leaf", nonEmpty, func(l at.List) at.List { return l.UnsetTF("#0") }},
		{"UnsetTF(#0.k) dot", firstIs(at.TypeObject), func(l at.List) at.List { return l.UnsetTF("#0.k") }},
		{"UnsetTF(#0#0) hash", func(l at.List) bool { return firstIs(at.TypeList)(l) && l.GetList(0).Count() > 0 }, func(l at.List) at.List { return l.UnsetTF("#0#0") }},
	}
}

func c19ObjOps() []c19ObjOp {
	oalways := func(at.Object) bool { return true }
	kIs := func(t at.Type) func(at.Object) bool { return func(o at.Object) bool { return o.TypeOf("k") == t } }
	kExistsNot := func(t at.Type) func(at.Object) bool {
		return func(o at.Object) bool { return o.KeyExists("k") && o.TypeOf("k") != t }
	}
	kMissing := func(o at.Object) bool { return !o.KeyExists("k") }
	return []c19ObjOp{
		{"Set()", oalways, func(o at.Object) at.Object { return o.Set() }},
		{"Set(k,1)", oalways, func(o at.Object) at.Object { return o.Set("k", 1) }},
		{"Set(a,\"x\",b,2.5)", oalways, func(o at.Object) at.Object { return o.Set("a", "x", "b", 2.5) }},
		{"Unset()", oalways, func(o at.Object) at.Object { return o.Unset() }},
		{"Unset(k)", oalways, func(o at.Object) at.Object { return o.Unset("k") }},
		{"Unset(a,zz)", oalways, func(o at.Object) at.Object { return o.Unset("a", "zz") }},
		{"Clear()", oalways, func(o at.Object) at.Object { return o.Clear() }},
		{"ForEach", oalways, func(o at.Object) at.Object { return o.ForEach(func(string, interface{}) {}) }},
		{"ForEachValue", oalways, func(o at.Object) at.Object { return o.ForEachValue(func(interface{}) {}) }},
		{"ForEachObject", oalways, func(o at.Object) at.Object { return o.ForEachObject(func(at.Object) {}) }},
		{"ForEachList", oalways, func(o at.Object) at.Object { return o.ForEachList(func(at.List) {}) }},
		{"ForEachString", oalways, func(o at.Object) at.Object { return o.ForEachString(func(string) {}) }},
		{"ForEachBool", oalways, func(o at.Object) at.Object { return o.ForEachBool(func(bool) {}) }},
		{"ForEachInt", oalways, func(o at.Object) at.Object { return o.ForEachInt(func(int) {}) }},
		{"ForEachFloat", oalways, func(o at.Object) at.Object { return o.ForEachFloat(func(float64) {}) }},
		{"ForEachAsync", oalways, func(o at.Object) at.Object { return o.ForEachAsync(func(string, interface{}) {}) }},
		{"SetTF(.k,9) leaf", oalways, func(o at.Object) at.Object { return o.SetTF(".k", 9) }},
		{"SetTF(.k.j,9) dot missing", kMissing, func(o at.Object) at.Object { return o.SetTF(".k.j", 9) }},
		{"SetTF(.k.j,9) dot reuse", kIs(at.TypeObject), func(o at.Object) at.Object { return o.SetTF(".k.j", 9) }},
		{"SetTF(.k.j,9) dot replace", kExistsNot(at.TypeObject), func(o at.Object) at.Object { return o.SetTF(".k.j", 9) }},
		{"SetTF(.k#1,9) hash missing", kMissing, func(o at.Object) at.Object { return o.SetTF(".k#1", 9) }},
		{"SetTF(.k#0,9) hash reuse", kIs(at.TypeList), func(o at.Object) at.Object { return o.SetTF(".k#0", 9) }},
		{"SetTF(.k#0,9) hash replace", kExistsNot(at.TypeList), func(o at.Object) at.Object { return o.SetTF(".k#0", 9) }},
		{"UnsetTF(.k) leaf", oalways, func(o at.Object) at.Object { return o.UnsetTF(".k") }},
		{"UnsetTF(.k.j) dot", kIs(at.TypeObject), func(o at.Object) at.Object { return o.UnsetTF(".k.j") }},
		{"UnsetTF(.k#0) hash", func(o at.Object) bool { return o.TypeOf("k") == at.TypeList && o.GetList("k").Count() > 0 }, func(o at.Object) at.Object { return o.UnsetTF(".k#0") }},
	}
}

var c19Fluent = map[string]bool{"Add": true, "Insert": true, "Replace": true, "Delete": true, "Pop": true, "Clear": true, "Sort": true, "Reverse": true, "Set": true, "Unset": true,
	"ForEach": true, "ForEachValue": true, "ForEachObject": true, "ForEachList": true, "ForEachString": true, "ForEachBool": true, "ForEachInt": true, "ForEachFloat": true, "ForEachAsync": true,
	"SetTF": true, "UnsetTF": true, "Ego": true}
var c19Deriving = map[string]bool{"Clone": true, "Concat": true, "SubList": true, "Map": true, "MapValues": true, "MapObjects": true, "MapLists": true, "MapStrings": true, "MapBools": true,
	"MapInts": true, "MapFloats": true, "MapAsync": true, "Filter": true, "FilterObjects": true, "FilterLists": true, "FilterStrings": true, "FilterInts": true, "FilterFloats": true,
	"Keys": true, "Values": true, "Merge": true, "Pluck": true, "GetList": true, "GetObject": true}

// c19Retrieval stores the derived value and retrieves it through every route.
// c19StoreRoutes: the derived value (and each of its inner embedding levels, and its embedded container) is stored
// through every storing entry point; what comes back must be the registered outer value at every position, and the
// stored value's own registration must survive the store (Ego and a fluent call still answer with the outer value).
func c19StoreRoutes(outer interface{}, level int, isList bool) (msg, sig string) {
	// the values that denote the same container: the outer value, its inner levels, the embedded plain container
	forms := map[string]interface{}{"the outer value": outer}
	switch d := outer.(type) {
	case *DL:
		forms["the embedded container"] = d.List
	case *DDL:
		forms["the inner embedding level"] = d.DL
		forms["the embedded container"] = d.DL.List
	case *DO:
		forms["the embedded container"] = d.Object
	case *DDO:
		forms["the inner embedding level"] = d.DO
		forms["the embedded container"] = d.DO.Object
	}
	names := make([]string, 0, len(forms))
	for n := range forms {
		names = append(names, n)
	}
	sort.Strings(names)
	for _, fname := range names {
		v := forms[fname]
		stores := map[string]func() interface{}{
			"NewList":                func() interface{} { return at.NewList(1, v).Get(1) },
			"NewListOf[0]":           func() interface{} { return at.NewListOf(v, 3).Get(0) },
			"NewListOf[1]":           func() interface{} { return at.NewListOf(v, 3).Get(1) },
			"NewListOf[2]":           func() interface{} { return at.NewListOf(v, 3).Get(2) },
			"NewListFrom([]any)":     func() interface{} { return at.NewListFrom([]interface{}{v, 1}).Get(0) },
			"Add":                    func() interface{} { return at.NewList().Add(1, v).Get(1) },
			"Insert":                 func() interface{} { return at.NewList(1, 2).Insert(1, v).Get(1) },
			"Replace":                func() interface{} { return at.NewList(1, 2).Replace(1, v).Get(1) },
			"List.SetTF leaf":        func() interface{} { return at.NewList(1).SetTF("#3", v).Get(3) },
			"List.SetTF nested":      func() interface{} { return at.NewList().SetTF("#0.k#1", v).GetTF("#0.k#1") },
			"NewObject":              func() interface{} { return at.NewObject("a", 1, "k", v).Get("k") },
			"NewObjectFrom(map any)": func() interface{} { return at.NewObjectFrom(map[string]interface{}{"k": v}).Get("k") },
			"Set":                    func() interface{} { return at.NewObject("k", 1).Set("k", v).Get("k") },
			"Object.SetTF":           func() interface{} { return at.NewObject().SetTF(".a.k", v).GetTF(".a.k") },
			"Map result":             func() interface{} { return at.NewList(0).Map(func(int, interface{}) interface{} { return v }).Get(0) },
			"MapAsync result": func() interface{} {
				return at.NewList(0, 1).MapAsync(func(int, interface{}) interface{} { return v }).Get(1)
			},
		}
		// slots that already hold a DIFFERENT container of equal content (seeded change C19-10a: a write is
		// skipped when the new value "equals" the old one, so the derived value is silently not stored)
		equalPlain := func() interface{} {
			if isList {
				return outer.(at.List).Clone()
			}
			return outer.(at.Object).Clone()
		}
		stores["Replace over an equal container"] = func() interface{} { return at.NewList(1, equalPlain()).Replace(1, v).Get(1) }
		stores["Set over an equal container"] = func() interface{} { return at.NewObject("k", equalPlain()).Set("k", v).Get("k") }
		stores["List.SetTF leaf over an equal container"] = func() interface{} { return at.NewList(equalPlain()).SetTF("#0", v).Get(0) }
		stores["Object.SetTF over an equal container"] = func() interface{} {
			return at.NewObject("a", at.NewObject("k", equalPlain())).SetTF(".a.k", v).GetTF(".a.k")
		}
		stores["List.SetTF nested over an equal container"] = func() interface{} {
			return at.NewList(at.NewObject("k", at.NewList(0, equalPlain()))).SetTF("#0.k#1", v).GetTF("#0.k#1")
		}
		if isList {
			stores["NewListFrom([]List)"] = func() interface{} { return at.NewListFrom([]at.List{v.(at.List), v.(at.List)}).Get(1) }
			stores["NewObjectFrom(map List)"] = func() interface{} { return at.NewObjectFrom(map[string]at.List{"k": v.(at.List)}).Get("k") }
		} else {
			stores["NewListFrom([]Object)"] = func() interface{} { return at.NewListFrom([]at.Object{v.(at.Object), v.(at.Object)}).Get(1) }
			stores["NewObjectFrom(map Object)"] = func() interface{} { return at.NewObjectFrom(map[string]at.Object{"k": v.(at.Object)}).Get("k") }
		}
		snames := make([]string, 0, len(stores))
		for n := range stores {
			snames = append(snames, n)
		}
		sort.Strings(snames)
		for _, sn := range snames {
			var got interface{}
			if pn, pv := try(func() { got = stores[sn]() }); pn {
				return fmt.Sprintf("storing %s of a derived value through %s panicked: %v", fname, sn, pv), "identity/store-panic/" + sn
			}
			if got != outer {
				return fmt.Sprintf("%s of a derived value (embedding level %d) stored through %s comes back as %T(%p), not as the registered outer value %T(%p)", fname, level, sn, got, got, outer, outer), "identity/store/" + sn
			}
			// the store must not have disturbed the registration of the stored value
			var ego, fluent interface{}
			if isList {
				ego, fluent = outer.(at.List).Ego(), outer.(at.List).ForEach(func(int, interface{}) {})
			} else {
				ego, fluent = outer.(at.Object).Ego(), outer.(at.Object).ForEach(func(string, interface{}) {})
			}
			if ego != outer || fluent != outer {
				return fmt.Sprintf("after storing %s through %s the value's own Ego()/fluent calls answer with %T/%T instead of the registered outer value %T", fname, sn, ego, fluent, outer), "identity/registration-lost/" + sn
			}
		}
	}
	return "", ""
}

func c19Retrieval(outer interface{}, level int, isList bool) (msg, sig string) {
	if m, sg := c19StoreRoutes(outer, level, isList); m != "" {
		return m, sg
	}
	same := func(route string, got interface{}) (string, string) {
		if got != outer {
			return fmt.Sprintf("a derived %s (embedding level %d) stored in a container comes back through %s as %T(%p), not as the registered outer value %T(%p)", map[bool]string{true: "list", false: "object"}[isList], level, route, got, got, outer, outer), "identity/retrieve/" + route
		}
		return "", ""
	}
	holders := []struct {
		name string
		l    at.List
		o    at.Object
	}{{"plain List", at.NewList("pad", outer), at.NewObject("k", outer, "pad", 1)}, {"derived List/Object, after tree-form writes through the stored value", newDL("pad", outer), newDO("k", outer, "pad", 1)}}
	for hi, h := range holders {
		if hi == 1 {
			// second holder pair: first write THROUGH the stored derived value with tree-form paths (the
			// intermediate is of the right kind and must be reused, not replaced), then retrieve
			if isList {
				n := outer.(at.List).Count()
				h.l.SetTF(fmt.Sprintf("#1#%d", n), "w")
				h.o.SetTF(fmt.Sprintf(".k#%d", n+1), "w")
			} else {
				h.l.SetTF("#1.zz", "w")
				h.o.SetTF(".k.zy", "w")
			}
		}
		routes := map[string]func() interface{}{
			"List.Get":   func() interface{} { return h.l.Get(1) },
			"List.GetTF": func() interface{} { return h.l.GetTF("#1") },
			"List.Slice": func() interface{} { return h.l.Slice()[1] },
			"List.ForEach": func() interface{} {
				var g interface{}
				h.l.ForEach(func(i int, v interface{}) {
					if i == 1 {
						g = v
					}
				})
				return g
			},
			"List.ForEachValue":                     func() interface{} { var g interface{}; h.l.ForEachValue(func(v interface{}) { g = v }); return g },
			"List.Filter":                           func() interface{} { return h.l.Filter(func(v interface{}) bool { return v != "pad" }).Get(0) },
			"List.Map":                              func() interface{} { return h.l.Map(func(i int, v interface{}) interface{} { return v }).Get(1) },
			"List.SubList":                          func() interface{} { return h.l.SubList(1, 0).Get(0) },
			"List.Concat":                           func() interface{} { return at.NewList().Concat(at.NewList(outer)).Get(0) },
			"List.Concat(derived argument)":         func() interface{} { return at.NewList(0).Concat(newDL("pad", outer)).Get(2) },
			"List.Concat(2-level derived argument)": func() interface{} { return newDL(0).Concat(newDDL(outer)).Get(1) },
			"List.Reduce":                           func() interface{} { return h.l.Reduce(nil, func(a, v interface{}) interface{} { return v }) },
			"Object.Get":                            func() interface{} { return h.o.Get("k") },
			"Object.GetTF":                          func() interface{} { return h.o.GetTF(".k") },
			"Object.Dict":                           func() interface{} { return h.o.Dict()["k"] },
			"Object.Values":                         func() interface{} { return h.o.Values().Filter(func(v interface{}) bool { return v != 1 }).Get(0) },
			"Object.ForEach": func() interface{} {
				var g interface{}
				h.o.ForEach(func(k string, v interface{}) {
					if k == "k" {
						g = v
					}
				})
				return g
			},
			"Object.ForEachValue": func() interface{} {
				var g interface{}
				h.o.ForEachValue(func(v interface{}) {
					if v != 1 {
						g = v
					}
				})
				return g
			},
			"Object.Pluck": func() interface{} { return h.o.Pluck("k").Get("k") },
			"Object.Map":   func() interface{} { return h.o.Map(func(k string, v interface{}) interface{} { return v }).Get("k") },
			"Object.Merge": func() interface{} { return at.NewObject().Merge(h.o).Get("k") },
		}
		if isList {
			routes["List.GetList"] = func() interface{} { return h.l.GetList(1) }
			routes["List.ListSlice"] = func() interface{} { return h.l.ListSlice()[0] }
			routes["List.ForEachList"] = func() interface{} { var g interface{}; h.l.ForEachList(func(v at.List) { g = v }); return g }
			routes["List.FilterLists"] = func() interface{} { return h.l.FilterLists(func(at.List) bool { return true }).Get(0) }
			routes["List.MapLists"] = func() interface{} { return h.l.MapLists(func(v at.List) interface{} { return v }).Get(0) }
			routes["Object.GetList"] = func() interface{} { return h.o.GetList("k") }
			routes["Object.ForEachList"] = func() interface{} { var g interface{}; h.o.ForEachList(func(v at.List) { g = v }); return g }
			routes["Object.MapLists"] = func() interface{} { return h.o.MapLists(func(v at.List) interface{} { return v }).Get("k") }
			routes["List.GetTF nested"] = func() interface{} { return at.NewList(at.NewObject("in", outer)).GetTF("#0.in") }
		} else {
			routes["List.GetObject"] = func() interface{} { return h.l.GetObject(1) }
			routes["List.ObjectSlice"] = func() interface{} { return h.l.ObjectSlice()[0] }
			routes["List.ForEachObject"] = func() interface{} { var g interface{}; h.l.ForEachObject(func(v at.Object) { g = v }); return g }
			routes["List.FilterObjects"] = func() interface{} { return h.l.FilterObjects(func(at.Object) bool { return true }).Get(0) }
			routes["List.MapObjects"] = func() interface{} { return h.l.MapObjects(func(v at.Object) interface{} { return v }).Get(0) }
			routes["Object.GetObject"] = func() interface{} { return h.o.GetObject("k") }
			routes["Object.ForEachObject"] = func() interface{} { var g interface{}; h.o.ForEachObject(func(v at.Object) { g = v }); return g }
			routes["Object.MapObjects"] = func() interface{} { return h.o.MapObjects(func(v at.Object) interface{} { return v }).Get("k") }
			routes["Object.GetTF nested"] = func() interface{} { return at.NewObject("in", at.NewList(outer)).GetTF(".in#0") }
		}
		names := make([]string, 0, len(routes))
		for n := range routes {
			names = append(names, n)
		}
		sort.Strings(names)
		for _, n := range names {
			var got interface{}
			if pn, pv := try(func() { got = routes[n]() }); pn {
				return fmt.Sprintf("retrieval through %s (%s) panicked: %v", n, h.name, pv), "identity/retrieve-panic/" + n
			}
			if m, _ := same(n+" ("+h.name+")", got); m != "" {
				return m, "identity/retrieve/" + n
			}
		}
	}
	return "", ""
}

func runC19(c *ev.Ctx) {
	defer sizeSweep(c, "C19")
	defer c19ExtraInterfaces(c)
	depth := 4
	if c.Thorough() {
		depth = 5
	}
	lops, oops := c19ListOps(), c19ObjOps()
	// classification of the interface methods (additions are noticed, not alarmed)
	var unclassified, fluentSeen []string
	for tn, t := range map[string]reflect.Type{"List": reflect.TypeOf((*at.List)(nil)).Elem(), "Object": reflect.TypeOf((*at.Object)(nil)).Elem()} {
		for i := 0; i < t.NumMethod(); i++ {
			m := t.Method(i)
			if m.Name[0] < 'A' || m.Name[0] > 'Z' || m.Type.NumOut() != 1 || m.Type.Out(0) != t {
				continue
			}
			switch {
			case c19Fluent[m.Name]:
				fluentSeen = append(fluentSeen, tn+"."+m.Name)
			case c19Deriving[m.Name]:
			default:
				unclassified = append(unclassified, tn+"."+m.Name)
			}
		}
	}
	sort.Strings(unclassified)
	sort.Strings(fluentSeen)
	c.Set("fluent_methods_found_by_reflection", fluentSeen)
	c.Set("methods_returning_the_container_type_not_classified", unclassified)
	c.Rule(fmt.Sprintf("user types DL{List}, DDL{*DL}, DO{Object}, DDO{*DO} registered with Init; explicit-state BFS over chains of <= %d fluent calls out of %d list variants / %d object variants (every code path of each fluent method: Insert front/middle/end, Delete with 0/1/2 indices, SetTF leaf/dot/hash x pad/reuse/replace, UnsetTF x3, all ForEach variants incl. ForEachAsync) from 6 start contents per type and embedding level; every call must return the registered outer value (interface identity, so returning the embedded container is detected) and Ego() must be it. States merged by (type, level, content). Retrieval: the derived value stored in a plain List/Object and in another derived value is stored - as the outer value, as each inner embedding level and as its embedded container - through 23 storing entry points (constructors, NewListOf at every position, Add/Insert/Replace/Set, tree-form writes - the overwriting ones also over a slot that holds a different container of equal content -, Map/MapAsync results): it must come back as the registered outer value and its own Ego()/fluent answers must survive the store; then it must come back identical through 28 routes (Get, typed getters, GetTF, ForEach*, typed slices, Slice, Dict, Values, Filter*, Map*, SubList, Concat, Merge, Pluck, Reduce).", depth, len(lops), len(oops)))
	c.Assume("fluent methods are those the statement lists; the interface is scanned by reflection and any other method returning the container type is reported as unclassified")

	type op struct{ I int }
	mkSys := func(level int, isList bool) *bfs.System[*c19S, op] {
		var inits []func() *c19S
		if isList {
			starts := [][]interface{}{{}, {1}, {3, 1, 2}, {"b", "a"}, {2.5, 1.5}, {at.NewObject("k", 1), at.NewList(7), "s", true, nil}}
			for _, st := range starts {
				st := st
				inits = append(inits, func() *c19S {
					vals := make([]interface{}, len(st))
					for i, v := range st {
						switch x := v.(type) { // fresh nested containers per state
						case at.Object:
							vals[i] = x.Clone()
						case at.List:
							vals[i] = x.Clone()
						default:
							vals[i] = v
						}
					}
					if level == 1 {
						return &c19S{L: newDL(vals...), Level: 1}
					}
					return &c19S{L: newDDL(vals...), Level: 2}
				})
			}
		} else {
			starts := [][]interface{}{{}, {"k", 1}, {"k", at.NewObject("j", 1)}, {"k", at.NewList(1, 2)}, {"a", 1, "b", "x", "k", nil}, {"k", "s", "z", true}}
			for _, st := range starts {
				st := st
				inits = append(inits, func() *c19S {
					vals := make([]interface{}, len(st))
					for i, v := range st {
						switch x := v.(type) {
						case at.Object:
							vals[i] = x.Clone()
						case at.List:
							vals[i] = x.Clone()
						default:
							vals[i] = v
						}
					}
					if level == 1 {
						return &c19S{O: newDO(vals...), Level: 1}
					}
					return &c19S{O: newDDO(vals...), Level: 2}
				})
			}
		}
		name := fmt.Sprintf("derived %s, embedding level %d", map[bool]string{true: "list", false: "object"}[isList], level)
		return &bfs.System[*c19S, op]{Name: name, Inits: inits,
			Ops: func(s *c19S) []op {
				var out []op
				if s.L != nil {
					for i, o := range lops {
						if o.Guard(s.L) {
							out = append(out, op{i})
						}
					}
				} else {
					for i, o := range oops {
						if o.Guard(s.O) {
							out = append(out, op{i})
						}
					}
				}
				return out
			},
			Apply: func(s *c19S, o op) (msg, sig string) {
				if s.L != nil {
					lo := lops[o.I]
					var ret at.List
					if pn, pv := try(func() { ret = lo.Call(s.L) }); pn {
						return fmt.Sprintf("%s panicked on a derived list %s: %v", lo.Name, s.L.String(), pv), "fluent-panic/" + lo.Name
					}
					if ret != s.L {
						return fmt.Sprintf("%s on a derived list (embedding level %d) returned %T(%p), not the registered outer value %T(%p)", lo.Name, s.Level, ret, ret, s.L, s.L), "identity/fluent/List." + lo.Name
					}
					return "", ""
				}
				oo := oops[o.I]
				var ret at.Object
				if pn, pv := try(func() { ret = oo.Call(s.O) }); pn {
					return fmt.Sprintf("%s panicked on a derived object %s: %v", oo.Name, s.O.String(), pv), "fluent-panic/" + oo.Name
				}
				if ret != s.O {
					return fmt.Sprintf("%s on a derived object (embedding level %d) returned %T(%p), not the registered outer value %T(%p)", oo.Name, s.Level, ret, ret, s.O, s.O), "identity/fluent/Object." + oo.Name
				}
				return "", ""
			},
			Label: func(o op) string {
				if isList {
					return lops[o.I].Name
				}
				return oops[o.I].Name
			},
			Check: func(s *c19S) (string, string) {
				if s.L != nil {
					if s.L.Ego() != s.L {
						return "Ego() is not the registered outer value", "identity/ego"
					}
					return "", ""
				}
				if s.O.Ego() != s.O {
					return "Ego() is not the registered outer value", "identity/ego"
				}
				return "", ""
			},
			Key: func(s *c19S) string {
				if s.L != nil {
					return fmt.Sprint(s.Level, "L", spineShape(s.L), s.L.String())
				}
				return fmt.Sprint(s.Level, "O", canonObj(s.O))
			},
			MaxDepth: depth,
			Describe: func(s *c19S) string {
				if s.L != nil {
					return s.L.String()
				}
				return s.O.String()
			}}
	}
	for _, level := range []int{1, 2} {
		for _, isList := range []bool{true, false} {
			if c.Expired() {
				c.Cut("a scenario was not started (deadline)")
				continue
			}
			sys := mkSys(level, isList)
			res := bfs.Run(c, sys)
			c.Set("scenario/"+sys.Name, map[string]interface{}{"states": res.States, "depth_completed": res.DepthCompleted, "depth_bound": depth})
			// retrieval identity for every start content
			for _, mk := range sys.Inits {
				s := mk()
				var outer interface{} = s.L
				if s.L == nil {
					outer = s.O
				}
				c.AddTrans(1)
				if m, sg := c19Retrieval(outer, level, isList); m != "" {
					mk := mk
					c.Violate(ev.Violation{Sig: sg, Msg: m, Witness: map[string]interface{}{"type": sys.Name}}, func() string {
						s := mk()
						var o interface{} = s.L
						if s.L == nil {
							o = s.O
						}
						_, sg := c19Retrieval(o, level, isList)
						return sg
					})
				}
			}
		}
	}
}

// c19ExtraInterfaces: derived values that also implement error / Marshaler interfaces go through the same routes.
func c19ExtraInterfaces(c *ev.Ctx) {
	for _, mk := range []func() (interface{}, bool){
		func() (interface{}, bool) { return newDLerr(1, "a"), true },
		func() (interface{}, bool) { return newDLerr(), true },
		func() (interface{}, bool) { return newDOerr("k", 1), false },
		func() (interface{}, bool) { return newDOerr(), false },
	} {
		mk := mk
		outer, isList := mk()
		c.Eval(1)
		c.Nontrivial(fmt.Sprintf("extra-interfaces/%T/%v", outer, isList))
		var m, sg string
		if pn, pv := try(func() { m, sg = c19Retrieval(outer, 1, isList) }); pn {
			m, sg = fmt.Sprintf("store/retrieval routes panicked for %T: %v", outer, pv), "identity/extra-interface-panic"
		}
		if m != "" {
			c.Violate(ev.Violation{Sig: sg, Msg: fmt.Sprintf("[%T, a derived value that also implements error] %s", outer, m), Witness: map[string]interface{}{"type": fmt.Sprintf("%T", outer)}}, func() string {
				o, il := mk()
				s := ""
				if pn, _ := try(func() { _, s = c19Retrieval(o, 1, il) }); pn {
					return "identity/extra-interface-panic"
				}
				return s
			})
		}
	}
}

func spineShape(l at.List) string { return "" }

// canonObj renders an object with sorted keys (String() follows map iteration order).
func canonObj(o at.Object) string {
	ks := o.Keys().StringSlice()
	sort.Strings(ks)
	out := "{"
	for _, k := range ks {
		v := o.Get(k)
		switch x := v.(type) {
		case at.Object:
			out += fmt.Sprintf("%q:%s,", k, canonObj(x))
		case at.List:
			out += fmt.Sprintf("%q:%s,", k, x.String())
		default:
			out += fmt.Sprintf("%q:%T(%v),", k, v, v)
		}
	}
	return out + "}"
}
