package checks

import (
	"fmt"
	"os"
	"path/filepath"
	"reflect"
	"strings"
	"sync"
	"sync/atomic"
	"time"
	"unicode/utf8"

	at "github.com/DanielSvub/anytype"
	"verif/ev"
	"verif/par"
	"verif/spec"
)

func init() { register("C04", "exploration", runC04) }

var c04Alpha = []string{"[", "]", "{", "}", `"`, ":", ",", "\\", "a", "1", "-", ".", "e", "t", "n", "u", " ", "\n",
	"\x80", "\xC3", "\xA9", "\xE2", "\xEF\xBF\xBD", "\xED\xA0\x80", "\xC0\x80", "\xF4\x90\x80\x80", "\xFF"}

var c04Openers = []string{"", "[", "{", `{"k":`, `[{"k":[`, `{"k":[{`}

// outcome of one parse call
type c04Out struct {
	panicked bool
	pval     interface{}
	isNil    bool // container nil (typed nils count as nil)
	err      error
	cont     interface{}
}

func callParser(which int, text string) (o c04Out) {
	o.panicked, o.pval = try(func() {
		if which == 0 {
			l, err := at.ParseList(text)
			o.err = err
			o.isNil = l == nil || reflect.ValueOf(l).IsNil()
			o.cont = l
		} else {
			ob, err := at.ParseObject(text)
			o.err = err
			o.isNil = ob == nil || reflect.ValueOf(ob).IsNil()
			o.cont = ob
		}
	})
	return
}

var parserNames = []string{"ParseList", "ParseObject"}

var c04Salts = []string{"\n\n[\"interleaved call\", {\"k\": [1, 2.5, null], \"j\": \"v\"}, [[true]]] trailing", "{\"key\": [\"unfinished" + bs + "n, {\"a\":\n\n 12"}

// c04Total checks totality, exclusivity and determinism of one parser on one byte string.
func c04Total(which int, text string) (msg, sig string) {
	a := callParser(which, text)
	name := parserNames[which]
	if a.panicked {
		return fmt.Sprintf("%s(%+q) panicked: %v", name, text, a.pval), "total/panic/" + name
	}
	if a.isNil == (a.err == nil) {
		return fmt.Sprintf("%s(%+q) returned container nil=%v together with error %v", name, text, a.isNil, a.err), "total/not-exclusive/" + name
	}
	// determinism across an interleaved call on a DIFFERENT input (state leaking from one call into
	// the next would show here): a long valid document and a truncated one are parsed in between
	callParser(which, c04Salts[0])
	callParser(1-which, c04Salts[1])
	b := callParser(which, text)
	if b.panicked || b.isNil != a.isNil || (a.err == nil) != (b.err == nil) || (a.err != nil && a.err.Error() != b.err.Error()) {
		return fmt.Sprintf("%s(%+q) is not deterministic: first (nil=%v, err=%v), second (nil=%v, err=%v, panic=%v)", name, text, a.isNil, a.err, b.isNil, b.err, b.panicked), "total/nondeterministic/" + name
	}
	if a.err == nil && !deepSame(a.cont, b.cont) {
		return fmt.Sprintf("%s(%+q) is not deterministic: two successful calls give unequal containers", name, text), "total/nondeterministic/" + name
	}
	return "", ""
}

// watchdog: each worker publishes the input it is working on; a stall of a whole minute on one
// short input is reported as non-termination (the measured cost per input is below 10 microseconds).
type watch struct {
	slots []atomic.Value
	stop  chan struct{}
	wg    sync.WaitGroup
}

type watchEntry struct {
	text string
	at   time.Time
}

func newWatch(c *ev.Ctx, sig string) *watch {
	w := &watch{slots: make([]atomic.Value, c.Workers+1), stop: make(chan struct{})}
	w.wg.Add(1)
	go func() {
		defer w.wg.Done()
		t := time.NewTicker(2 * time.Second)
		defer t.Stop()
		for {
			select {
			case <-w.stop:
				return
			case <-t.C:
				for i := range w.slots {
					if e, ok := w.slots[i].Load().(watchEntry); ok && e.text != "\x00idle" && time.Since(e.at) > 90*time.Second {
						c.Violate(ev.Violation{Sig: sig, Msg: fmt.Sprintf("parser did not return within 90 s on %+q", e.text), Witness: map[string]string{"text": e.text}}, nil)
						os.Exit(c.Finish())
					}
				}
			}
		}
	}()
	return w
}

func (w *watch) enter(i int, text string) { w.slots[i].Store(watchEntry{text, time.Now()}) }
func (w *watch) leave(i int)              { w.slots[i].Store(watchEntry{"\x00idle", time.Now()}) }
func (w *watch) close()                   { close(w.stop); w.wg.Wait() }

var c04Leaves2 = []*spec.V{spec.S("]"), spec.S("}"), spec.S("["), spec.S("{"), spec.S(`"`), spec.S("\\"), spec.S(","), spec.S(":"), spec.S(string(rune(0xE9))), spec.S(string(rune(0x1F600))), spec.I(1)}
var c04Keys2 = []string{"]", "}", `"`, "\\", string(rune(0xE9))}

var c04Bad = []string{"\x80", "\xBF", "\xC3", "\xE2\x82", "\xF0\x9F\x98", "\xC0\x80", "\xE0\x80\x80", "\xED\xA0\x80", "\xF4\x90\x80\x80", "\xF8", "\xFF"}

func runC04(c *ev.Ctx) {
	defer sizeSweep(c, "C04")
	L := 5
	depthMax := 10000
	if c.Thorough() {
		L = 6
		depthMax = 100000
	}
	c.Rule(fmt.Sprintf("Space 1: every string of <= %d tokens over a 27-token byte alphabet (brackets, quote, colon, comma, backslash, literal letters, digits, SP, LF, and 9 ill-formed/odd UTF-8 byte groups) to ParseList and ParseObject, and every string of <= %d tokens behind each opener of %q; nesting sweeps up to depth %d. Space 2: every proper byte prefix of String() of every tree (<=5 nodes over 9 leaves; <=4 nodes over bracket/quote/backslash/non-ASCII strings as values and keys; <=3 nodes over strings/keys holding characters whose code point ends in the byte of a structural character, U+0122 U+0422 U+4E22 U+1F622 ..., followed by real brackets). Space 3: every ill-formed UTF-8 group of %d kinds inserted at every byte offset strictly between the root brackets of those documents. Space 4: ParseFile vs ParseObject on every Space-1 text of <= 3 tokens and every object document, every single byte 0x00-0xFF inserted at every offset of 3 object documents, line-ending rewrites (CRLF, CR, LF CR, CR CR LF, TAB), byte-order marks, files of 4095..1 MiB+1 bytes, plus the unreadable-path menu. Non-trivial = distinct input that reaches a parser state machine (contains the root bracket the entry point looks for) and is longer than 2 bytes.", L, L-1, c04Openers[1:], depthMax, len(c04Bad)))
	c.Assume("a call that does not return within 90 s on an input of < 1 MB is reported as non-termination", "nesting deeper than the sweep is limited by the goroutine stack, not by the library")
	wd := newWatch(c, "total/non-termination")
	defer wd.close()
	stop := func() bool { return c.Expired() || c.TooMany() }

	// ---- Space 1 ----
	for oi, opener := range c04Openers {
		maxLen := L
		if oi > 0 {
			maxLen = L - 1
		}
		total, offs := powSum(len(c04Alpha), 0, maxLen)
		opener := opener
		done := par.Range(c.Workers, total, 8192, stop, func(w int, idx int64) {
			n, rest := decodeLen(idx, 0, offs)
			var dgb [8]int
			dg := digits(rest, len(c04Alpha), n, dgb[:0])
			var sb strings.Builder
			sb.WriteString(opener)
			for _, d := range dg {
				sb.WriteString(c04Alpha[d])
			}
			text := sb.String()
			wd.enter(w, text)
			for which := 0; which < 2; which++ {
				c.Eval(1)
				if msg, sig := c04Total(which, text); msg != "" {
					which := which
					c.Violate(ev.Violation{Sig: sig, Msg: msg, Witness: map[string]string{"text": text, "parser": parserNames[which]}}, func() string { _, s := c04Total(which, text); return s })
				}
			}
			wd.leave(w)
			if len(text) > 2 && strings.ContainsAny(text, "[{") {
				c.NontrivialH(ev.Hash(text))
			}
			if idx%1000003 == 7 {
				c.Sample(map[string]string{"space": "1/all-token-strings", "text": fmt.Sprintf("%+q", text)})
			}
		})
		if done < total {
			c.Cut(fmt.Sprintf("space 1 opener %q: %d of %d strings", opener, done, total))
		}
	}
	// nesting sweeps
	for d := 1; d <= depthMax && !stop(); d *= 10 {
		for _, shape := range []struct{ open, close, name string }{{"[", "]", "lists"}, {`{"a":`, "}", "objects"}, {`[{"a":`, "}]", "alternating"}} {
			full := strings.Repeat(shape.open, d) + "1" + strings.Repeat(shape.close, d)
			for _, text := range []string{full, full[:len(full)-1], strings.Repeat(shape.open, d)} {
				wd.enter(c.Workers, text[:min(len(text), 64)])
				for which := 0; which < 2; which++ {
					c.Eval(1)
					if msg, sig := c04Total(which, text); msg != "" {
						c.Violate(ev.Violation{Sig: sig + "/deep", Msg: fmt.Sprintf("nesting depth %d (%s): %s", d, shape.name, msg[:min(len(msg), 300)]), Witness: map[string]interface{}{"shape": shape.name, "depth": d}}, nil)
					}
				}
				wd.leave(c.Workers)
			}
			c.Nontrivial(fmt.Sprint("deep/", shape.name, d))
		}
	}

	// ---- Space 2 + 3 : documents ----
	docs := func(emit func(*spec.V) bool) {
		ok := true
		spec.NewEnum(docLeaves, docKeys).Containers(5, 3, func(v *spec.V) bool { ok = emit(v); return ok })
		if ok {
			spec.NewEnum(c04Leaves2, c04Keys2).Containers(4, 3, func(v *spec.V) bool { ok = emit(v); return ok })
		}
		if ok {
			// strings and keys holding non-ASCII characters whose code point has the LOW BYTE of a structural character
			// (quote 0x22, backslash 0x5C, brackets 0x5B/0x5D/0x7B/0x7D, comma 0x2C, colon 0x3A), next to real brackets:
			// a scanner that classifies a rune by its low byte ends the string there and takes what follows as structure
			var lv []*spec.V
			var ks []string
			for _, low := range []rune{0x22, 0x5C, 0x5D, 0x7D, 0x2C} {
				for _, hi := range []rune{0x0100, 0x0400, 0x4E00, 0x1F600} {
					r := string(hi + low)
					lv = append(lv, spec.S(r+"]"), spec.S(r+"}\","+r))
				}
				ks = append(ks, string(rune(0x0400)+low)+"}", string(rune(0x1F600)+low)+"]")
			}
			lv = append(lv, spec.I(1))
			spec.NewEnum(lv, ks[:4]).Containers(3, 2, emit)
		}
	}
	par.Stream(c.Workers, stop, docs, func(w int, v *spec.V) {
		text := rootString(v.Build())
		which := 0
		if v.K == spec.Obj {
			which = 1
		}
		// Space 2: proper prefixes
		for i := 0; i < len(text); i++ {
			c.Eval(1)
			pre := text[:i]
			wd.enter(w, pre)
			o := callParser(which, pre)
			wd.leave(w)
			if o.panicked || o.err == nil || !o.isNil {
				msg := fmt.Sprintf("%s accepted/mishandled the truncated document %+q (prefix %d of %+q): panic=%v err=%v nil=%v", parserNames[which], pre, i, text, o.panicked, o.err, o.isNil)
				c.Violate(ev.Violation{Sig: "prefix/accepted/" + parserNames[which], Msg: msg, Witness: map[string]string{"text": pre, "parser": parserNames[which]}}, func() string {
					o := callParser(which, pre)
					if o.panicked || o.err == nil || !o.isNil {
						return "prefix/accepted/" + parserNames[which]
					}
					return ""
				})
			}
			if i > 1 {
				c.NontrivialH(ev.Hash("p" + pre))
			}
		}
		// Space 3: ill-formed UTF-8 between the root brackets
		for off := 1; off < len(text); off++ {
			for _, bad := range c04Bad {
				mut := text[:off] + bad + text[off:]
				if utf8.ValidString(mut[1 : len(mut)-1]) {
					c.Add("utf8_insertions_skipped_because_still_valid", 1)
					continue
				}
				c.Eval(1)
				wd.enter(w, mut)
				o := callParser(which, mut)
				wd.leave(w)
				if o.panicked || o.err == nil || !o.isNil {
					msg := fmt.Sprintf("%s did not reject ill-formed UTF-8 %+q inserted at byte %d of %+q: panic=%v err=%v nil=%v", parserNames[which], bad, off, text, o.panicked, o.err, o.isNil)
					c.Violate(ev.Violation{Sig: "utf8/accepted/" + parserNames[which], Msg: msg, Witness: map[string]string{"text": mut, "parser": parserNames[which]}}, func() string {
						o := callParser(which, mut)
						if o.panicked || o.err == nil || !o.isNil {
							return "utf8/accepted/" + parserNames[which]
						}
						return ""
					})
				}
				c.NontrivialH(ev.Hash("u" + mut))
			}
		}
		// Space 3b: the same document laid out with whitespace (FormatString), every single byte 0x80..0xFF
		// inserted at every offset between the root brackets: a lone high byte is never valid UTF-8 there
		// unless it completes a neighbour (checked with utf8.Valid), whatever byte class a shortcut might use
		if v.Nodes() <= 3 {
			var pretty string
			try(func() { pretty = formatRoot(v.Build(), 1) })
			if lo, hi := strings.IndexAny(pretty, "[{"), strings.LastIndexAny(pretty, "]}"); pretty != "" && lo >= 0 && hi > lo {
				for off := lo + 1; off <= hi; off++ {
					for b := 0x80; b <= 0xFF; b++ {
						mut := pretty[:off] + string([]byte{byte(b)}) + pretty[off:]
						if utf8.ValidString(mut[lo+1 : hi+1]) {
							continue
						}
						c.Eval(1)
						o := callParser(which, mut)
						if o.panicked || o.err == nil || !o.isNil {
							msg := fmt.Sprintf("%s did not reject the stray byte 0x%02X inserted at byte %d of the indented document %+q: panic=%v err=%v nil=%v", parserNames[which], b, off, pretty, o.panicked, o.err, o.isNil)
							mm := mut
							c.Violate(ev.Violation{Sig: "utf8/accepted-in-indented/" + parserNames[which], Msg: msg, Witness: map[string]string{"text": mm, "parser": parserNames[which]}}, func() string {
								o := callParser(which, mm)
								if o.panicked || o.err == nil || !o.isNil {
									return "utf8/accepted-in-indented/" + parserNames[which]
								}
								return ""
							})
						}
					}
				}
				c.NontrivialH(ev.Hash("i" + pretty))
			}
		}
		c.SampleTag("docs", func() interface{} {
			return map[string]string{"space": "2+3/prefixes and UTF-8 insertions of", "text": fmt.Sprintf("%+q", text)}
		})
	})

	// ---- Space 4 : ParseFile ----
	dir, err := os.MkdirTemp("/verif/.cache/tmp", "c04files")
	if err != nil {
		dir, err = os.MkdirTemp("", "c04files")
	}
	if err != nil {
		ev.Harness("C04", "cannot create temp dir: %v", err)
	}
	defer os.RemoveAll(dir)
	fileCase := func(w int, text string) {
		path := filepath.Join(dir, fmt.Sprintf("w%d.json", w))
		if err := os.WriteFile(path, []byte(text), 0o644); err != nil {
			ev.Harness("C04", "cannot write temp file: %v", err)
		}
		c.Eval(1)
		if msg, sig := c04File(path, text); msg != "" {
			c.Violate(ev.Violation{Sig: sig, Msg: msg, Witness: map[string]string{"file_content": text}}, func() string {
				os.WriteFile(path, []byte(text), 0o644)
				_, s := c04File(path, text)
				return s
			})
		}
	}
	total, offs := powSum(len(c04Alpha), 0, 3)
	par.Range(c.Workers, total*2, 512, stop, func(w int, idx int64) {
		behind := idx >= total
		if behind {
			idx -= total
		}
		n, rest := decodeLen(idx, 0, offs)
		dg := digits(rest, len(c04Alpha), n, nil)
		var sb strings.Builder
		if behind {
			sb.WriteString("{")
		}
		for _, d := range dg {
			sb.WriteString(c04Alpha[d])
		}
		fileCase(w, sb.String())
	})
	par.Stream(c.Workers, stop, func(emit func(*spec.V) bool) {
		spec.NewEnum(docLeaves, docKeys).Containers(4, 3, func(v *spec.V) bool {
			if v.K == spec.Obj {
				return emit(v)
			}
			return true
		})
	}, func(w int, v *spec.V) {
		text := rootString(v.Build())
		fileCase(w, text)
		fileCase(w, "\n\n"+text+"\n")
		fileCase(w, text[:len(text)-1])
		c.NontrivialH(ev.Hash("f" + text))
	})
	// ParseFile must see exactly the bytes of the file: every single byte 0x00-0xFF inserted at every offset of three
	// object documents (compact, laid out over several lines, with escapes), line-ending rewrites, a byte-order mark,
	// and files around the usual buffer sizes
	{
		bases := []string{`{"a":"xy","b":[1,{"c":null}]}`, "{\n \"a\": \"x\\ny\",\n \"b\": [\n  1.5,\n  true\n ]\n}\n", `{"k\"":"\u00e9\\"}`}
		type fc struct{ text string }
		par.Stream(c.Workers, stop, func(emit func(fc) bool) {
			for _, b := range bases {
				for off := 0; off <= len(b); off++ {
					for x := 0; x < 256; x++ {
						if !emit(fc{b[:off] + string([]byte{byte(x)}) + b[off:]}) {
							return
						}
					}
				}
				for _, rw := range [][2]string{{"\n", "\r\n"}, {"\n", "\r"}, {"\n", "\n\r"}, {" ", "\t"}, {"\n", "\r\r\n"}} {
					emit(fc{strings.ReplaceAll(b, rw[0], rw[1])})
					emit(fc{"\r" + b + "\r"})
				}
				emit(fc{"\xef\xbb\xbf" + b})
				emit(fc{"\xff\xfe" + b})
				for _, n := range []int{4095, 4096, 4097, 65535, 65536, 65537, 1<<20 + 1} {
					pad := n - len(b) - 8
					if pad < 0 {
						continue
					}
					emit(fc{`{"pad":"` + strings.Repeat("p", pad) + `",` + b[1:]})
					emit(fc{strings.Repeat(" ", pad) + b})
					emit(fc{b + strings.Repeat("\n", pad)})
				}
			}
		}, func(w int, k fc) {
			fileCase(w, k.text)
			c.NontrivialH(ev.Hash("fb" + k.text))
		})
	}
	// environment menu
	os.Mkdir(filepath.Join(dir, "adir"), 0o755)
	os.Symlink(filepath.Join(dir, "nowhere"), filepath.Join(dir, "dangling"))
	unread := filepath.Join(dir, "unreadable.json")
	os.WriteFile(unread, []byte(`{"a":1}`), 0o000)
	menu := map[string]string{"missing": filepath.Join(dir, "missing.json"), "directory": filepath.Join(dir, "adir"), "empty-path": "", "nul-in-path": filepath.Join(dir, "a\x00b"), "dangling-symlink": filepath.Join(dir, "dangling")}
	if _, err := os.ReadFile(unread); err != nil {
		menu["unreadable"] = unread
	} else {
		c.Set("unreadable_file_case", "skipped: running as a user that can read mode-000 files")
	}
	for _, name := range []string{"missing", "directory", "empty-path", "nul-in-path", "dangling-symlink", "unreadable"} {
		path, ok := menu[name]
		if !ok {
			continue
		}
		c.Eval(1)
		c.Nontrivial("env/" + name)
		var o at.Object
		var err error
		p, pv := try(func() { o, err = at.ParseFile(path) })
		if p || err == nil || !(o == nil || reflect.ValueOf(o).IsNil()) {
			c.Violate(ev.Violation{Sig: "file/env/" + name, Msg: fmt.Sprintf("ParseFile on %s path: panic=%v(%v) err=%v object-nil=%v", name, p, pv, err, o == nil), Witness: map[string]string{"case": name}}, nil)
		}
	}
	if c.Expired() {
		c.Cut("deadline reached")
	}
}

func min(a, b int) int {
	if a < b {
		return a
	}
	return b
}

// c04File compares ParseFile(path) with ParseObject(content).
func c04File(path, text string) (msg, sig string) {
	var fo at.Object
	var ferr error
	if p, v := try(func() { fo, ferr = at.ParseFile(path) }); p {
		return fmt.Sprintf("ParseFile panicked on content %+q: %v", text, v), "file/panic"
	}
	so := callParser(1, text)
	fnil := fo == nil || reflect.ValueOf(fo).IsNil()
	if fnil == (ferr == nil) {
		return fmt.Sprintf("ParseFile on content %+q returned object nil=%v with error %v", text, fnil, ferr), "file/not-exclusive"
	}
	if so.panicked || (ferr == nil) != (so.err == nil) {
		return fmt.Sprintf("ParseFile and ParseObject disagree on %+q: file err=%v, string err=%v", text, ferr, so.err), "file/disagree"
	}
	if ferr != nil && ferr.Error() != so.err.Error() {
		return fmt.Sprintf("ParseFile and ParseObject report different errors on %+q: %q vs %q", text, ferr, so.err), "file/disagree-error"
	}
	if ferr == nil && !deepSame(fo, so.cont) {
		return fmt.Sprintf("ParseFile and ParseObject build unequal objects from %+q", text), "file/disagree-value"
	}
	return "", ""
}
