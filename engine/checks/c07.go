package checks

import (
	"fmt"
	"math"
	"sync/atomic"

	at "github.com/DanielSvub/anytype"
	"verif/ev"
	"verif/par"
	"verif/spec"
)

func init() { register("C07", "exploration", runC07) }

var c07Leaves = []*spec.V{spec.NilV, spec.B(true), spec.B(false), spec.I(0), spec.I(1), spec.F(0), spec.F(1), spec.S(""), spec.S("1")}
var c07Keys = []string{"a", "b", "c"}

const c07Variants = 6

var c07VariantNames = []string{"keys inserted in listed order", "keys inserted in reverse order", "dirty history (extra key set then unset, values overwritten)", "lists built from runs of equal elements by NewListOf (shared field objects) joined by Concat", "nested containers are user types embedding List/Object (derived structures)", "structurally equal nested containers are ONE shared instance referenced from several places"}

// c07Recv: construction routes of the LEFT operand (receiver)
var c07Recv = []int{0, 3, 5}

// buildVariant builds a specification with a chosen insertion history for every object in it.
func buildVariant(v *spec.V, variant int) interface{} {
	if variant == 4 {
		return buildDerived(v, 0)
	}
	if variant == 5 {
		return buildSharedEqual(v, map[string]interface{}{})
	}
	switch v.K {
	case spec.Lst:
		if variant == 3 {
			l := at.NewList()
			for i := 0; i < len(v.L); {
				j := i
				for j < len(v.L) && !v.L[i].IsContainer() && spec.Equal(v.L[j], v.L[i]) {
					j++
				}
				if j == i {
					l = l.Concat(at.NewList(buildVariant(v.L[i], variant)))
					i++
					continue
				}
				l = l.Concat(at.NewListOf(v.L[i].Native(), j-i))
				i = j
			}
			return l
		}
		l := at.NewList()
		for _, e := range v.L {
			l.Add(buildVariant(e, variant))
		}
		return l
	case spec.Obj:
		o := at.NewObject()
		switch variant {
		case 0:
			for _, e := range v.KV {
				o.Set(e.K, buildVariant(e.V, variant))
			}
		case 1:
			for i := len(v.KV) - 1; i >= 0; i-- {
				o.Set(v.KV[i].K, buildVariant(v.KV[i].V, variant))
			}
		default:
			o.Set("zz-extra", 1, "zz-extra2", at.NewList())
			for _, e := range v.KV {
				o.Set(e.K, "placeholder")
			}
			o.Unset("zz-extra")
			for i := len(v.KV) - 1; i >= 0; i-- {
				o.Set(v.KV[i].K, buildVariant(v.KV[i].V, variant))
			}
			o.Unset("zz-extra2", "never-there")
		}
		return o
	default:
		return v.Native()
	}
}

// buildSharedEqual builds an acyclic GRAPH: nested containers with equal specifications are the identical
// instance (seeded change C07-10a: a per-call memo of receiver-side containers already found equal).
func buildSharedEqual(v *spec.V, memo map[string]interface{}) interface{} {
	if !v.IsContainer() {
		return v.Native()
	}
	key := v.String()
	if r, ok := memo[key]; ok {
		return r
	}
	var out interface{}
	if v.K == spec.Lst {
		l := at.NewList()
		for _, e := range v.L {
			l.Add(buildSharedEqual(e, memo))
		}
		out = l
	} else {
		o := at.NewObject()
		for _, e := range v.KV {
			o.Set(e.K, buildSharedEqual(e.V, memo))
		}
		out = o
	}
	memo[key] = out
	return out
}

// buildDerived builds the tree with every NESTED container wrapped in a user type that embeds it.
func buildDerived(v *spec.V, depth int) interface{} {
	switch v.K {
	case spec.Lst:
		vals := make([]interface{}, len(v.L))
		for i, e := range v.L {
			vals[i] = buildDerived(e, depth+1)
		}
		if depth > 0 {
			return newDL(vals...)
		}
		return at.NewList(vals...)
	case spec.Obj:
		var kv []interface{}
		for _, e := range v.KV {
			kv = append(kv, e.K, buildDerived(e.V, depth+1))
		}
		if depth > 0 {
			return newDO(kv...)
		}
		return at.NewObject(kv...)
	}
	return v.Native()
}

func equalsRoot(a, b interface{}) (res bool, panicked bool, pv interface{}) {
	panicked, pv = try(func() { res = rootEquals(a, b) })
	return
}

// edits returns every single-point edit of a specification (at any depth).
func c07Edits(v *spec.V) []*spec.V {
	var out []*spec.V
	leafAlts := func(x *spec.V) []*spec.V {
		switch x.K {
		case spec.Int:
			return []*spec.V{spec.F(float64(x.I)), spec.S(fmt.Sprint(x.I)), spec.I(x.I + 1), spec.NilV, spec.B(x.I != 0), spec.L(x), spec.O(spec.P("a", x))}
		case spec.Str:
			return []*spec.V{spec.S(x.S + "x"), spec.S(""), spec.NilV, spec.L(), spec.O()}
		default:
			return []*spec.V{spec.I(1)}
		}
	}
	var rec func(x *spec.V, rebuild func(*spec.V) *spec.V)
	rec = func(x *spec.V, rebuild func(*spec.V) *spec.V) {
		switch x.K {
		case spec.Lst:
			n := len(x.L)
			// append / remove / swap
			out = append(out, rebuild(spec.L(append(append([]*spec.V{}, x.L...), spec.I(1))...)))
			out = append(out, rebuild(spec.O())) // other container kind
			for i := 0; i < n; i++ {
				rm := append(append([]*spec.V{}, x.L[:i]...), x.L[i+1:]...)
				out = append(out, rebuild(spec.L(rm...)))
				if i+1 < n {
					sw := append([]*spec.V{}, x.L...)
					sw[i], sw[i+1] = sw[i+1], sw[i]
					out = append(out, rebuild(spec.L(sw...)))
				}
				i := i
				rec(x.L[i], func(r *spec.V) *spec.V {
					cp := append([]*spec.V{}, x.L...)
					cp[i] = r
					return rebuild(spec.L(cp...))
				})
			}
		case spec.Obj:
			out = append(out, rebuild(spec.L()))
			if x.Field("zz") == nil {
				out = append(out, rebuild(spec.O(append(append([]spec.KV{}, x.KV...), spec.P("zz", spec.I(1)))...)))
			}
			for i := range x.KV {
				rm := append(append([]spec.KV{}, x.KV[:i]...), x.KV[i+1:]...)
				out = append(out, rebuild(spec.O(rm...)))
				ren := append([]spec.KV{}, x.KV...)
				ren[i] = spec.P(x.KV[i].K+"2", x.KV[i].V) // key renamed, count unchanged
				out = append(out, rebuild(spec.O(ren...)))
				i := i
				rec(x.KV[i].V, func(r *spec.V) *spec.V {
					cp := append([]spec.KV{}, x.KV...)
					cp[i] = spec.P(x.KV[i].K, r)
					return rebuild(spec.O(cp...))
				})
			}
		default:
			for _, a := range leafAlts(x) {
				out = append(out, rebuild(a))
			}
		}
	}
	rec(v, func(r *spec.V) *spec.V { return r })
	return out
}

func runC07(c *ev.Ctx) {
	defer sizeSweep(c, "C07")
	sqNodes := 4
	neighNodes := 4
	deepNodes := 5
	if c.Thorough() {
		neighNodes, deepNodes = 5, 6
	}
	e := spec.NewEnum(c07Leaves, c07Keys)
	trees := e.All(sqNodes, 3)
	var lists, objs []*spec.V
	for _, t := range trees {
		if t.K == spec.Lst {
			lists = append(lists, t)
		} else {
			objs = append(objs, t)
		}
	}
	c.Rule(fmt.Sprintf("(1) full square: every ordered pair of list-rooted trees and every ordered pair of object-rooted trees with <= %d nodes, depth <= 3 over near-miss leaves {nil,true,false,0,1,0.0,1.0,\"\",\"1\"} (+ empty list/object) and keys {a,b,c}: %d lists, %d objects; the right operand built through 6 construction routes (keys in listed order, reverse order, dirty history, shared field objects, derived structures, structurally equal nested containers as ONE shared instance), the left operand alternating between plain, shared-field and shared-instance construction. (2) every tree with <= %d nodes paired with each of its single-point edits at any depth (leaf kind changed, element appended/removed/swapped, key renamed/added/removed, container kind changed), both directions, all routes. (3) the same for trees with <= %d nodes, depth <= 4 over leaves {1,\"a\"}. (4) Equals re-asked after in-place edits: every tree of the square x every container in it, two equal builds, edited in one / in both / undone. Oracle: reference structural equality on the specifications (kind-strict, key-order-insensitive); equality with an equivalence relation on every ordered pair implies reflexivity, symmetry and transitivity on the enumerated set. Non-trivial = distinct ordered pair of different specifications (or different build histories of one specification).", sqNodes, len(lists), len(objs), neighNodes, deepNodes))
	c.Assume("NaN is excluded (the statement says NaN-free data)", "List.Equals takes a List and Object.Equals an Object, so roots of different kinds cannot be compared; kind mismatches are exercised at nested positions")
	stop := func() bool { return c.Expired() || c.TooMany() }

	var reflexive, symmetricPairs, equalPairs int64
	square := func(set []*spec.V, name string) {
		n := int64(len(set))
		// per-worker prebuilt right operands (never shared between goroutines)
		built := make([][][]interface{}, c.Workers)
		done := par.Range(c.Workers, n, 1, stop, func(w int, i int64) {
			if built[w] == nil {
				built[w] = make([][]interface{}, c07Variants)
				for vr := 0; vr < c07Variants; vr++ {
					built[w][vr] = make([]interface{}, n)
					for j, t := range set {
						built[w][vr][j] = buildVariant(t, vr)
					}
				}
			}
			va := set[i]
			a := buildVariant(va, c07Recv[i%3]) // receivers alternate between plain, shared-field and shared-container construction
			for j := int64(0); j < n; j++ {
				vb := set[j]
				want := spec.Equal(va, vb)
				for vr := 0; vr < c07Variants; vr++ {
					b := built[w][vr][j]
					got, pn, pv := equalsRoot(a, b)
					if pn || got != want {
						i, j, vr := i, j, vr
						msg := fmt.Sprintf("%s: %s .Equals( %s [%s] ) = %v (panic=%v %v), reference structural equality says %v", name, va, vb, c07VariantNames[vr], got, pn, pv, want)
						sig := "equals/wrong-true"
						if want {
							sig = "equals/wrong-false"
						}
						if pn {
							sig = "equals/panic"
						}
						c.Violate(ev.Violation{Sig: sig, Msg: msg, Witness: map[string]interface{}{"left": va.String(), "right": vb.String(), "right_history": c07VariantNames[vr]}}, func() string {
							g, p, _ := equalsRoot(buildVariant(set[i], c07Recv[i%3]), buildVariant(set[j], vr))
							if p {
								return "equals/panic"
							}
							if g == spec.Equal(set[i], set[j]) {
								return ""
							}
							if spec.Equal(set[i], set[j]) {
								return "equals/wrong-false"
							}
							return "equals/wrong-true"
						})
					}
				}
				if i == j {
					atomic.AddInt64(&reflexive, c07Variants)
				} else {
					atomic.AddInt64(&symmetricPairs, c07Variants)
				}
				if want {
					atomic.AddInt64(&equalPairs, c07Variants)
				}
			}
			c.Eval(int(n) * c07Variants)
			if m := spec.Match(a, va); m != "" {
				c.Violate(ev.Violation{Sig: "equals/modified-receiver", Msg: fmt.Sprintf("Equals modified its receiver %s: %s", va, m), Witness: va.String()}, nil)
			}
			if i%97 == 5 {
				c.Sample(map[string]interface{}{"phase": "full square " + name, "left": va.String(), "right_example": set[(i*31+7)%n].String()})
			}
		})
		// operands (arguments) must be unchanged as well
		for w := range built {
			for vr := range built[w] {
				for j, b := range built[w][vr] {
					if m := spec.Match(b, set[j]); m != "" {
						c.Violate(ev.Violation{Sig: "equals/modified-argument", Msg: fmt.Sprintf("Equals modified its argument %s: %s", set[j], m), Witness: set[j].String()}, nil)
					}
				}
			}
		}
		if done < n {
			c.Cut(fmt.Sprintf("full square %s: %d of %d rows", name, done, n))
		}
		for i := int64(0); i < n*n && i < 3_000_000; i++ {
			c.NontrivialH(ev.Hash(name) + uint64(i))
		}
		if n*n > 3_000_000 {
			c.Set("distinct_pairs_"+name, n*n)
		}
	}
	square(lists, "lists")
	square(objs, "objects")
	c.Set("reflexive_instances", reflexive)
	c.Set("ordered_pairs_checked_both_directions", symmetricPairs)
	c.Set("pairs_reference_equal", equalPairs)

	// (2)+(3) single-point edits
	editPhase := func(en *spec.Enum, nodes, depth int, tag string) {
		par.Stream(c.Workers, stop, func(emit func(*spec.V) bool) { en.Containers(nodes, depth, emit) }, func(w int, v *spec.V) {
			eds := c07Edits(v)
			for _, ed := range eds {
				if ed.K != v.K {
					continue // roots of different kinds cannot be passed to Equals
				}
				want := spec.Equal(v, ed)
				for vr := 0; vr < c07Variants; vr++ {
					for dir := 0; dir < 2; dir++ {
						c.Eval(1)
						x, y := v, ed
						if dir == 1 {
							x, y = ed, v
						}
						recv := c07Recv[(vr+dir)%3]
						a, b := buildVariant(x, recv), buildVariant(y, vr)
						got, pn, pv := equalsRoot(a, b)
						bad := pn || got != want
						if !bad {
							if spec.Match(a, x) != "" || spec.Match(b, y) != "" {
								bad = true
							}
						}
						if bad {
							x, y, vr := x, y, vr
							sig := "equals-edit/wrong-true"
							if want {
								sig = "equals-edit/wrong-false"
							}
							if pn {
								sig = "equals-edit/panic"
							}
							if !pn && got == want {
								sig = "equals-edit/modified-operand"
							}
							c.Violate(ev.Violation{Sig: sig, Msg: fmt.Sprintf("%s .Equals( %s [%s] ) = %v (panic=%v %v), want %v (operands differ by one edit)", x, y, c07VariantNames[vr], got, pn, pv, want),
								Witness: map[string]interface{}{"left": x.String(), "right": y.String(), "right_history": c07VariantNames[vr]}}, func() string {
								g, p, _ := equalsRoot(buildVariant(x, recv), buildVariant(y, vr))
								switch {
								case p:
									return "equals-edit/panic"
								case g != spec.Equal(x, y) && spec.Equal(x, y):
									return "equals-edit/wrong-false"
								case g != spec.Equal(x, y):
									return "equals-edit/wrong-true"
								}
								return sig
							})
						}
					}
				}
				c.NontrivialH(ev.Hash(tag + v.String() + "|" + ed.String()))
			}
			c.SampleTag(tag, func() interface{} {
				if len(eds) == 0 {
					return map[string]string{"phase": tag, "tree": v.String()}
				}
				return map[string]string{"phase": tag, "tree": v.String(), "one_of_its_edits": eds[len(eds)/2].String()}
			})
		})
	}
	editPhase(e, neighNodes, 3, "single-edit neighbours (near-miss leaves)")
	editPhase(spec.NewEnum([]*spec.V{spec.I(1), spec.S("a")}, []string{"a", "b"}), deepNodes, 4, "single-edit neighbours (deep trees)")
	c07ScalarSquare(c)
	c07AfterEdits(c, lists, objs)
	if c.Expired() {
		c.Cut("deadline reached")
	}
}

// c07ScalarSquare: every ordered pair over a scalar alphabet of near-misses (neighbouring ints that collapse when
// converted to float64, int/float pairs of equal value, strings differing in case / a NUL / normalisation form),
// each pair embedded at 5 places. Expected: Equal exactly when kind and value coincide.
func c07ScalarSquare(c *ev.Ctx) {
	p53 := 1 << 53
	vals := []interface{}{nil, true, false,
		0, 1, -1, p53, p53 + 1, -p53, -p53 - 1, math.MaxInt, math.MaxInt - 1, math.MinInt, math.MinInt + 1,
		0.0, 1.0, -1.0, float64(p53), float64(p53) + 2, math.Ldexp(1, 63), -math.Ldexp(1, 63), 5e-324, 0.1 + 0.2, 0.3, math.Inf(1), math.Inf(-1), math.MaxFloat64,
		"", "0", "1", "a", "A", "a\x00", "a ", string(rune(0xE9)), "e" + string(rune(0x301)), "true", "null"}
	embed := []struct {
		name string
		mk   func(v interface{}) at.List
	}{
		{"[v]", func(v interface{}) at.List { return at.NewList(v) }},
		{"[0,v]", func(v interface{}) at.List { return at.NewList(0, v) }},
		{"[v,\"z\"]", func(v interface{}) at.List { return at.NewList(v, "z") }},
		{"[[v]]", func(v interface{}) at.List { return at.NewList(at.NewList(v)) }},
		{"[{k:v}]", func(v interface{}) at.List { return at.NewList(at.NewObject("k", v)) }},
	}
	for i, x := range vals {
		for j, y := range vals {
			want := i == j || sameVal(x, y)
			for _, em := range embed {
				a, b := em.mk(x), em.mk(y)
				c.Eval(1)
				c.Nontrivial(fmt.Sprintf("scalar-square/%d/%d/%s", i, j, em.name))
				var got bool
				pn, pv := try(func() { got = a.Equals(b) })
				if pn || got != want {
					x, y, em := x, y, em
					c.Violate(ev.Violation{Sig: "equals/scalar-square", Msg: fmt.Sprintf("%s with v=%T(%v) Equals the same with v=%T(%v): got %v (panic %v %v), want %v", em.name, x, x, y, y, got, pn, pv, want),
						Witness: map[string]string{"shape": em.name, "left": fmt.Sprintf("%T(%v)", x, x), "right": fmt.Sprintf("%T(%v)", y, y)}}, func() string {
						g := false
						if p, _ := try(func() { g = em.mk(x).Equals(em.mk(y)) }); p || g != want {
							return "equals/scalar-square"
						}
						return ""
					})
				}
			}
		}
	}
	c.Set("scalar_square", map[string]interface{}{"values": len(vals), "embeddings": len(embed), "note": "0.0 and -0.0 are not both in the alphabet (the statement does not say whether they are the same value)"})
}
