package checks

import (
	"fmt"
	"sync/atomic"

	at "github.com/DanielSvub/anytype"

	"verif/ev"
	"verif/par"
	"verif/spec"
)

// Tree-form reads re-asked after in-place edits made WITHOUT tree-form writes (lesson of round 10: state kept between
// calls, e.g. a memo of resolved paths that only SetTF/UnsetTF drop). For every tree, every container in it (root
// included) and every edit of a small menu: all own paths are read (GetTF + TypeOfTF against step-by-step navigation),
// the container is edited through its own handle, all the same paths are read again on the same tree - the oracle
// navigates the live tree, so paths that stopped resolving must now be Undefined and shifted ones must follow.

type c10Edit struct {
	name string
	do   func(t interface{})
}

func c10EditMenu(t interface{}) []c10Edit {
	var out []c10Edit
	switch x := t.(type) {
	case at.List:
		out = append(out,
			c10Edit{"Insert(0,9)", func(t interface{}) { t.(at.List).Insert(0, 9) }},
			c10Edit{"Add([7])", func(t interface{}) { t.(at.List).Add(at.NewList(7)) }},
			c10Edit{"Clear()", func(t interface{}) { t.(at.List).Clear() }})
		if x.Count() > 0 {
			out = append(out,
				c10Edit{"Delete(0)", func(t interface{}) { t.(at.List).Delete(0) }},
				c10Edit{"Replace(0,{a:8})", func(t interface{}) { t.(at.List).Replace(0, at.NewObject("a", 8)) }},
				c10Edit{"Reverse()", func(t interface{}) { t.(at.List).Reverse() }})
		}
	case at.Object:
		out = append(out,
			c10Edit{"Set(zz,9)", func(t interface{}) { t.(at.Object).Set("zz", 9) }},
			c10Edit{"Clear()", func(t interface{}) { t.(at.Object).Clear() }})
		for _, k := range x.Keys().StringSlice() {
			k := k
			out = append(out,
				c10Edit{fmt.Sprintf("Set(%q,[7])", k), func(t interface{}) { t.(at.Object).Set(k, at.NewList(7)) }},
				c10Edit{fmt.Sprintf("Unset(%q)", k), func(t interface{}) { t.(at.Object).Unset(k) }})
		}
	}
	return out
}

func c10AfterEditsOne(v *spec.V) (msg, sig string, evals int) {
	var paths, leaves []string
	resolvablePaths(v, "", &paths, &leaves)
	if len(paths) == 0 {
		return "", "", 0
	}
	conts := [][]nstep{nil}
	nestedPaths(v, nil, &conts)
	for _, cp := range conts {
		var names []string
		try(func() {
			for _, e := range c10EditMenu(realAt(v.Build(), cp)) {
				names = append(names, e.name)
			}
		})
		for ei := range names {
			root := v.Build()
			for _, p := range paths {
				if m, _, _ := c10One(root, p); m != "" {
					return "", "", evals // reported by the plain space
				}
			}
			var target interface{}
			var menu []c10Edit
			if pn, _ := try(func() { target = realAt(root, cp); menu = c10EditMenu(target) }); pn || ei >= len(menu) {
				continue
			}
			if pn, _ := try(func() { menu[ei].do(target) }); pn {
				continue // mutators are judged by C05/C06
			}
			for _, p := range paths {
				evals++
				if m, s, _ := c10One(root, p); m != "" {
					return fmt.Sprintf("tree %s: all paths read, then %s on the container at %v, then read again: %s", v, menu[ei].name, cp, m), "after-edit/" + s, evals
				}
			}
		}
	}
	return "", "", evals
}

func c10AfterEdits(c *ev.Ctx, en *spec.Enum, maxNodes int) {
	var total int64
	par.Stream(c.Workers, func() bool { return c.Expired() || c.TooMany() }, func(emit func(*spec.V) bool) { en.Containers(maxNodes, 3, emit) }, func(w int, v *spec.V) {
		var msg, sig string
		var k int
		if pn, pv := try(func() { msg, sig, k = c10AfterEditsOne(v) }); pn {
			msg, sig = fmt.Sprintf("tree-form reads after in-place edits of %s: panic %v", v, pv), "after-edit/panic"
		}
		c.Eval(k)
		atomic.AddInt64(&total, int64(k))
		if msg != "" {
			c.Violate(ev.Violation{Sig: sig, Msg: msg, Witness: map[string]interface{}{"tree": v.String()}}, func() string {
				s := ""
				if pn, _ := try(func() { _, s, _ = c10AfterEditsOne(v) }); pn {
					return "after-edit/panic"
				}
				return s
			})
		}
	})
	c.Set("reads_after_in_place_edits", map[string]interface{}{"path_reads_after_an_edit": total, "max_nodes": maxNodes,
		"rule": "every tree x every container in it (root included) x every edit of the menu (list: Insert(0,9), Add([7]), Clear, Delete(0), Replace(0,{a:8}), Reverse; object: Set(zz,9), Clear, Set(k,[7]) and Unset(k) for every key): all own paths read before and after the edit on the same tree, oracle = step-by-step navigation of the live tree"})
}
