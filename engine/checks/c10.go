package checks

import (
	"fmt"
	"strconv"
	"strings"

	at "github.com/DanielSvub/anytype"
	"verif/ev"
	"verif/par"
	"verif/spec"
)

func init() { register("C10", "exploration", runC10) }

type tfSeg struct {
	Sigil byte
	Body  string
}

// tfTokenize splits a path into segments; ok=false when the string does not start with a
// sigil. Well-formedness of the individual segments is judged by tfWellFormed.
func tfTokenize(p string) (segs []tfSeg, ok bool) {
	if p == "" || (p[0] != '.' && p[0] != '#') {
		return nil, false
	}
	i := 0
	for i < len(p) {
		sig := p[i]
		j := i + 1
		for j < len(p) && p[j] != '.' && p[j] != '#' {
			j++
		}
		segs = append(segs, tfSeg{sig, p[i+1 : j]})
		i = j
	}
	return segs, true
}

func canonicalIndex(s string) (int, bool) {
	if s == "" || len(s) > 9 {
		return 0, false
	}
	for i := 0; i < len(s); i++ {
		if s[i] < '0' || s[i] > '9' {
			return 0, false
		}
	}
	if len(s) > 1 && s[0] == '0' {
		return 0, false
	}
	n, _ := strconv.Atoi(s)
	return n, true
}

func tfWellFormed(segs []tfSeg) bool {
	if len(segs) == 0 {
		return false
	}
	for _, s := range segs {
		if s.Sigil == '.' && s.Body == "" {
			return false
		}
		if s.Sigil == '#' {
			if _, ok := canonicalIndex(s.Body); !ok {
				return false
			}
		}
	}
	return true
}

// tfNavigate applies Get segment by segment using only Get/TypeOf/KeyExists/Count.
func tfNavigate(root interface{}, segs []tfSeg) (val interface{}, ok bool) {
	cur := root
	for _, s := range segs {
		switch s.Sigil {
		case '.':
			o, isObj := cur.(at.Object)
			if !isObj || !o.KeyExists(s.Body) {
				return nil, false
			}
			cur = o.Get(s.Body)
		case '#':
			l, isList := cur.(at.List)
			idx, good := canonicalIndex(s.Body)
			if !isList || !good || idx >= l.Count() {
				return nil, false
			}
			cur = l.Get(idx)
		}
	}
	return cur, true
}

func kindOfValue(v interface{}) at.Type {
	switch v.(type) {
	case nil:
		return at.TypeNil
	case at.Object:
		return at.TypeObject
	case at.List:
		return at.TypeList
	case string:
		return at.TypeString
	case bool:
		return at.TypeBool
	case int:
		return at.TypeInt
	case float64:
		return at.TypeFloat
	}
	return at.TypeUndefined
}

func getTF(root interface{}, p string) interface{} {
	if l, ok := root.(at.List); ok {
		return l.GetTF(p)
	}
	return root.(at.Object).GetTF(p)
}

func typeOfTF(root interface{}, p string) at.Type {
	if l, ok := root.(at.List); ok {
		return l.TypeOfTF(p)
	}
	return root.(at.Object).TypeOfTF(p)
}

// c10One checks one (tree, path) pair on a given real root.
func c10One(root interface{}, p string) (msg, sig string, resolvable bool) {
	segs, tok := tfTokenize(p)
	var want interface{}
	ok := false
	if tok && tfWellFormed(segs) {
		want, ok = tfNavigate(root, segs)
	}
	var typ at.Type
	if pn, pv := try(func() { typ = typeOfTF(root, p) }); pn {
		return fmt.Sprintf("TypeOfTF(%q) panicked: %v", p, pv), "tfread/typeof-panic", ok
	}
	var got interface{}
	gpn, _ := try(func() { got = getTF(root, p) })
	if ok {
		if typ != kindOfValue(want) {
			return fmt.Sprintf("TypeOfTF(%q) = %d, step-by-step navigation finds kind %d (%s)", p, typ, kindOfValue(want), show(want)), "tfread/typeof-wrong", ok
		}
		if gpn {
			return fmt.Sprintf("GetTF(%q) panicked although step-by-step navigation finds %s", p, show(want)), "tfread/get-panic", ok
		}
		if !sameVal(got, want) {
			return fmt.Sprintf("GetTF(%q) = %s, step-by-step navigation finds %s", p, show(got), show(want)), "tfread/get-wrong", ok
		}
		return "", "", ok
	}
	if typ != at.TypeUndefined {
		return fmt.Sprintf("TypeOfTF(%q) = %d on a path that cannot be navigated step by step (want TypeUndefined)", p, typ), "tfread/typeof-not-undefined", ok
	}
	if !gpn {
		return fmt.Sprintf("GetTF(%q) returned %s on a path that cannot be navigated step by step (want a panic)", p, show(got)), "tfread/get-no-panic", ok
	}
	return "", "", ok
}

// resolvablePaths lists the path of every node below the root.
func resolvablePaths(v *spec.V, prefix string, out *[]string, leafOut *[]string) {
	switch v.K {
	case spec.Lst:
		for i, e := range v.L {
			p := prefix + "#" + strconv.Itoa(i)
			*out = append(*out, p)
			resolvablePaths(e, p, out, leafOut)
		}
	case spec.Obj:
		for _, e := range v.KV {
			p := prefix + "." + e.K
			*out = append(*out, p)
			resolvablePaths(e.V, p, out, leafOut)
		}
	default:
		if prefix != "" {
			*leafOut = append(*leafOut, prefix)
		}
	}
}

// corruptions returns the one-step corruptions of a resolvable path.
func corruptions(p string, out map[string]bool) {
	segs, _ := tfTokenize(p)
	join := func(s []tfSeg) string {
		var sb strings.Builder
		for _, x := range s {
			sb.WriteByte(x.Sigil)
			sb.WriteString(x.Body)
		}
		return sb.String()
	}
	for i := range segs {
		cp := func() []tfSeg { return append([]tfSeg{}, segs...) }
		// dropped segment
		d := append(cp()[:i], segs[i+1:]...)
		out[join(d)] = true
		// sigil swapped
		s := cp()
		if s[i].Sigil == '.' {
			s[i].Sigil = '#'
		} else {
			s[i].Sigil = '.'
		}
		out[join(s)] = true
		// body emptied
		s = cp()
		s[i].Body = ""
		out[join(s)] = true
		if segs[i].Sigil == '#' {
			n, _ := strconv.Atoi(segs[i].Body)
			big := func(k string) string { // n + k where k is 2^63, 2^64, 2^65 (decimal strings)
				a := []byte(k)
				carry := n
				for i := len(a) - 1; i >= 0 && carry > 0; i-- {
					d := int(a[i]-'0') + carry%10
					carry /= 10
					if d >= 10 {
						d -= 10
						carry++
					}
					a[i] = byte('0' + d)
				}
				return string(a)
			}
			for _, alt := range []string{strconv.Itoa(n + 1), strconv.Itoa(n + 2), strconv.Itoa(n + 7), "-1", "x", "1x",
				big("9223372036854775808"), big("18446744073709551616"), big("36893488147419103232"), big("4294967296"), "99999999999999999999"} {
				s = cp()
				s[i].Body = alt
				out[join(s)] = true
			}
		} else {
			for _, alt := range []string{segs[i].Body + "x", "x" + segs[i].Body, "zz"} {
				s = cp()
				s[i].Body = alt
				out[join(s)] = true
			}
		}
	}
	out[p[1:]] = true // leading sigil dropped
	out[p+"."] = true // trailing sigils
	out[p+"#"] = true
	for _, app := range []string{".a", "#0", ".0", "#1"} { // a segment appended (below a leaf or into a container)
		out[p+app] = true
	}
}

var c10Bodies = []string{"a", "b", "0", "1", "2", "10", "x", ""}

// pathAlphabet returns every path of 1..k segments over {.,#} x bodies, plus each with the leading sigil dropped.
func pathAlphabet(k int) []string { return pathAlphabetOver(k, c10Bodies) }

func pathAlphabetOver(k int, bodies []string) []string {
	var segs []string
	for _, sg := range []string{".", "#"} {
		for _, b := range bodies {
			segs = append(segs, sg+b)
		}
	}
	set := map[string]bool{"": true}
	var out []string
	total, offs := powSum(len(segs), 1, k)
	for i := int64(0); i < total; i++ {
		n, rest := decodeLen(i, 1, offs)
		dg := digits(rest, len(segs), n, nil)
		var sb strings.Builder
		for _, d := range dg {
			sb.WriteString(segs[d])
		}
		for _, p := range []string{sb.String(), sb.String()[1:]} {
			if !set[p] {
				set[p] = true
				out = append(out, p)
			}
		}
	}
	out = append(out, "")
	return out
}

var c10Leaves = []*spec.V{spec.NilV, spec.I(1), spec.S("s")}
var c10Keys = []string{"a", "b", "0", "1"}

func runC10(c *ev.Ctx) {
	defer sizeSweep(c, "C10")
	nodes, k, nodesDeep, kDeep := 4, 3, 3, 4
	if c.Thorough() {
		nodes, nodesDeep = 5, 4
	}
	p3 := pathAlphabet(k)
	pDeep := pathAlphabet(kDeep)
	c.Rule(fmt.Sprintf("trees = every list/object-rooted tree with <= %d nodes, depth <= 3 over leaves {nil,1,\"s\"} and keys {a,b,0,1} (numeric-looking keys make a '.'/'#' mix-up visible), and every tree with <= 4 nodes over the multi-byte / multi-character / empty keys {U+00E9, ab, \"\"} with the matching path alphabet (a path cannot address the empty key: every path with an empty segment must stay Undefined); paths per tree = every resolvable path, every one-step corruption of each (segment dropped, sigil swapped, body emptied, index shifted to n+1/n+2/n+7/-1/non-numeric/n+2^32/n+2^63/n+2^64/n+2^65, key misspelt, leading sigil dropped, trailing sigil, segment appended) and all %d strings of <= %d segments over {.,#} x {a,b,0,1,2,10,x,empty} with and without the leading sigil; additionally all %d strings of <= %d segments on every tree with <= %d nodes. Oracle: harness tokenizer + step-by-step navigation with Get/KeyExists/Count only. Non-trivial = distinct (tree, path) pair whose path has >= 2 segments and resolves, or is a one-step corruption of a resolvable path.", nodes, len(p3), k, len(pDeep), kDeep, nodesDeep))
	c.Assume("tree keys are free of '.' and '#'; index spellings with sign, leading zeros, hex or underscores are outside the path grammar of the statement: whether they resolve is not judged, only that GetTF and TypeOfTF agree on them (30 spellings x 8 path shapes)")
	stop := func() bool { return c.Expired() || c.TooMany() }
	en := spec.NewEnum(c10Leaves, c10Keys)
	runOn := c10Run(c, stop)
	en2 := spec.NewEnum(c10Leaves, []string{string(rune(0xE9)), "ab", "", "a "})
	p2 := pathAlphabetOver(3, []string{string(rune(0xE9)), "ab", "0", "1", "a", "a ", " a", ""})
	runOn(en2, 4, p2, "multi-byte, multi-character and EMPTY keys {U+00E9, ab, \"\"}: all trees x (own paths + corruptions + all paths of <= 3 segments)", true)
	runOn(en, nodes, p3, "all trees x (own paths + corruptions + all paths of <= 3 segments)", true)
	runOn(en, nodesDeep, pDeep, "small trees x all paths of <= 4 segments", false)
	c10Spellings(c)
	c10AfterEdits(c, en, nodes)
	if c.Expired() {
		c.Cut("deadline reached")
	}
}

// c10Spellings: index segments in spellings the statement's grammar does not name (leading zeros, sign, hex/octal/
// binary prefixes, underscores, blanks, exponent, full-width digits). Whether such a segment resolves is left
// open - but the statement's two cases are exhaustive for EVERY path string: either the path resolves (GetTF returns
// a value and TypeOfTF reports that value's kind) or it does not (GetTF panics and TypeOfTF is Undefined). The two
// readers must therefore agree on every spelling, and a resolved spelling must return an element of the list.
func c10Spellings(c *ev.Ctx) {
	spell := []string{"00", "01", "07", "08", "09", "010", "011", "0x1", "0X1", "0xA", "0b1", "0B10", "0o7", "0_1", "1_0", "+1", "+0", "-0", "-1",
		" 1", "1 ", "1e0", "1.0", "0x", "0b", "1__0", "_1", "1_", string(rune(0xFF11)), string(rune(0x661))}
	elems := make([]interface{}, 12)
	for i := range elems {
		switch i % 3 {
		case 0:
			elems[i] = at.NewObject("k", i, "l", at.NewList(i))
		case 1:
			elems[i] = at.NewList(i, at.NewObject("k", i))
		default:
			elems[i] = i
		}
	}
	l := at.NewList(elems...)
	root := at.NewObject("r", l)
	before := root.Clone()
	n := 0
	for _, sp := range spell {
		for _, shape := range []struct {
			path string
			on   interface{}
		}{{"#" + sp, l}, {"#" + sp + ".k", l}, {"#" + sp + "#0", l}, {"#" + sp + ".l#0", l}, {".r#" + sp, root}, {".r#" + sp + "#1.k", root}, {"#0.l#" + sp, l}, {"#1#" + sp, l}} {
			n++
			c.Eval(1)
			c.Nontrivial("spelling/" + shape.path)
			var got interface{}
			var ty at.Type
			var gp, tp bool
			switch r := shape.on.(type) {
			case at.List:
				gp, _ = try(func() { got = r.GetTF(shape.path) })
				tp, _ = try(func() { ty = r.TypeOfTF(shape.path) })
			case at.Object:
				gp, _ = try(func() { got = r.GetTF(shape.path) })
				tp, _ = try(func() { ty = r.TypeOfTF(shape.path) })
			}
			msg := ""
			switch {
			case tp:
				msg = "TypeOfTF panicked"
			case gp && ty != at.TypeUndefined:
				msg = fmt.Sprintf("GetTF panics but TypeOfTF reports kind %d", ty)
			case !gp && ty == at.TypeUndefined:
				msg = fmt.Sprintf("GetTF returns %v but TypeOfTF reports Undefined", got)
			case !gp && kindOfValue(got) != ty:
				msg = fmt.Sprintf("GetTF returns %v (kind %d) but TypeOfTF reports kind %d", got, kindOfValue(got), ty)
			case !root.Equals(before):
				msg = "the tree was modified by a read"
			}
			if msg != "" {
				path := shape.path
				c.Violate(ev.Violation{Sig: "tfread/readers-disagree", Msg: fmt.Sprintf("path %q on a list of 12: %s", path, msg), Witness: map[string]string{"path": path}}, nil)
			}
		}
	}
	c.Set("index_spellings", map[string]interface{}{"spellings": spell, "paths": n, "oracle": "GetTF and TypeOfTF agree (both resolve to the same kind, or panic / Undefined); tree unchanged"})
}

func c10Run(c *ev.Ctx, stop func() bool) func(en *spec.Enum, maxNodes int, paths []string, tag string, own bool) {
	return func(en *spec.Enum, maxNodes int, paths []string, tag string, own bool) {
		par.Stream(c.Workers, stop, func(emit func(*spec.V) bool) { en.Containers(maxNodes, 3, emit) }, func(w int, v *spec.V) {
			root := v.Build()
			var mine []string
			if own {
				var res, leaves []string
				resolvablePaths(v, "", &res, &leaves)
				set := map[string]bool{}
				for _, p := range res {
					set[p] = true
					corruptions(p, set)
				}
				for p := range set {
					mine = append(mine, p)
				}
			}
			nres, nun := 0, 0
			check := func(p string, nontrivial bool) {
				msg, sig, ok := c10One(root, p)
				if ok {
					nres++
				} else {
					nun++
				}
				if nontrivial || (ok && strings.Count(p[1:], ".")+strings.Count(p[1:], "#") >= 1) {
					c.NontrivialH(ev.Hash(v.String() + "\x00" + p))
				}
				if msg != "" {
					c.Violate(ev.Violation{Sig: sig, Msg: fmt.Sprintf("tree %s: %s", v, msg), Witness: map[string]string{"tree": v.String(), "path": p}},
						func() string { _, s, _ := c10One(v.Build(), p); return s })
				}
			}
			for _, p := range mine {
				check(p, true)
			}
			for _, p := range paths {
				check(p, false)
			}
			c.Eval(len(mine) + len(paths))
			c.Add("resolvable_path_evaluations", int64(nres))
			c.Add("unresolvable_path_evaluations", int64(nun))
			if m := spec.Match(root, v); m != "" {
				c.Violate(ev.Violation{Sig: "tfread/modified", Msg: fmt.Sprintf("tree %s was modified by GetTF/TypeOfTF: %s", v, m), Witness: v.String()}, nil)
			}
			c.SampleTag(tag, func() interface{} {
				ex := ""
				if len(mine) > 0 {
					ex = mine[len(mine)/2]
				}
				return map[string]interface{}{"phase": tag, "tree": v.String(), "paths_on_this_tree": len(mine) + len(paths), "example_path": ex}
			})
		})
	}

}
