package checks

import (
	"fmt"
	"reflect"
	"sort"

	at "github.com/DanielSvub/anytype"
	"verif/bfs"
	"verif/ev"
	"verif/model"
)

func init() { register("C09", "model_checking", runC09) }

// ---- state: a world (registers: 0 receiver, 1 argument, 2 result1, 3 result2, 4 nested container
// shared by reference) plus native results with their expected content, and the phase counters.

type natv struct {
	real interface{}   // []any, []int, []List, map[string]any, ...
	want []interface{} // expected elements as model values (slices) ...
	wmap map[string]interface{}
	desc string
}

type c09S struct {
	W          *model.World
	nats       []*natv
	nA, nB, nC int
	firstK     int // kind of the first derivation
}

const (
	rRecv = iota
	rArg
	rD1
	rD2
	rNest
)

type c09Op struct {
	Ph   uint8 // 0 build, 1 derive, 2 mutate
	K    int
	R    int // target register (mutations) / result register (derivations)
	I, J int
}

// list building ops
var c09BuildNames = []string{"recv=NewList()", "recv=NewListOf(1,3)", "recv=NewListFrom([]any{1,2})", "recv.Add(1)", "recv.Add(2,N)", "recv.Insert(0,2)", "recv.Delete(0)",
	"recv.Delete(last)", "recv.Pop()", "recv.Clear()", "recv=recv.Clone()", "recv=recv.SubList(0,0)", "recv=recv.Concat(arg)", "arg.Add(9)", "recv.Add(N)", "recv.Sort()", "recv.Reverse()"}

var c09DeriveNames = []string{"Concat(arg)", "Concat(recv)", "SubList(0,0)", "SubList(1,0)", "SubList(0,-1)", "Filter(always)", "Filter(alternate)", "FilterInts(always)", "FilterLists(always)",
	"Map(identity)", "MapValues(identity)", "MapInts(identity)", "MapLists(identity)", "MapAsync(identity)", "Clone()",
	"Slice()", "IntSlice()", "ListSlice()", "NativeSlice()",
	"Reduce/ReduceInts/String/FormatString/Equals/Contains/IndexOf (pure calls)"}

var c09MutNames = []string{"Add(7)", "Insert(0,7)", "Replace(0,7)", "Delete(0)", "Pop()", "Clear()", "Sort()", "Reverse()", "Add(7,8,9)", "native[0]=77", "append(native[:0],55)", "native=append(native,66)"}

func c09Label(o c09Op) string {
	switch o.Ph {
	case 0:
		return c09BuildNames[o.K]
	case 1:
		return fmt.Sprintf("d%d=recv.%s", o.R-rD1+1, c09DeriveNames[o.K])
	}
	who := []string{"recv", "arg", "d1", "d2", "N"}[o.R]
	if o.K >= 9 {
		return fmt.Sprintf("native#%d: %s", o.I, c09MutNames[o.K])
	}
	return who + "." + c09MutNames[o.K]
}

func c09Init(maxLen int) func() *c09S {
	return func() *c09S {
		w := model.NewWorld(5)
		w.ProbeVals = []interface{}{1, 2, 7}
		recv, arg, nest := model.NewL(), model.NewL(), model.NewL(5)
		w.Bind(recv, at.NewList())
		w.Bind(arg, at.NewList())
		w.Bind(nest, at.NewList(5))
		w.Regs[rRecv], w.Regs[rArg], w.Regs[rNest] = recv, arg, nest
		return &c09S{W: w}
	}
}

type c09Cfg struct {
	maxA, maxB, maxC, maxLen int
	fullPairs                bool // second derivation from the full menu (else only storage-relevant pairs)
}

// derivations whose results have top-level storage that could alias (used for derivation pairs in quick runs)
var c09Storage = map[int]bool{0: true, 1: true, 2: true, 5: true, 9: true, 15: true}
var c09OStorage = map[int]bool{0: true, 2: true, 4: true, 5: true, 11: true, 13: true}

func c09Ops(cfg c09Cfg) func(s *c09S) []c09Op {
	return func(s *c09S) []c09Op {
		var ops []c09Op
		recv := s.W.Regs[rRecv].(*model.L)
		n := len(recv.E)
		if s.nB == 0 && s.nC == 0 && s.nA < cfg.maxA {
			for k := range c09BuildNames {
				switch k {
				case 3, 5, 14:
					if n+1 > cfg.maxLen {
						continue
					}
				case 4:
					if n+2 > cfg.maxLen {
						continue
					}
				case 6, 7, 8:
					if n == 0 {
						continue
					}
				case 12:
					if n+len(s.W.Regs[rArg].(*model.L).E) > cfg.maxLen {
						continue
					}
				case 13:
					if len(s.W.Regs[rArg].(*model.L).E) >= 2 {
						continue
					}
				case 15:
					if n == 0 || sortDomain(recv.E) != 1 {
						continue
					}
				}
				ops = append(ops, c09Op{Ph: 0, K: k})
			}
		}
		if s.nC == 0 && s.nB < cfg.maxB {
			dst := rD1 + s.nB
			for k := range c09DeriveNames {
				if (k == 3) && n < 1 {
					continue
				}
				if s.nB == 1 && !cfg.fullPairs && !(c09Storage[s.firstK] && c09Storage[k]) {
					continue
				}
				if k == 1 && 2*n > cfg.maxLen+2 {
					continue
				}
				ops = append(ops, c09Op{Ph: 1, K: k, R: dst})
			}
		}
		maxC := cfg.maxC
		if s.nB == 2 {
			maxC = 1
		}
		if s.nB > 0 && s.nC < maxC {
			for r := rRecv; r <= rNest; r++ {
				m, ok := s.W.Regs[r].(*model.L)
				if !ok || m == nil {
					continue
				}
				for k := 0; k <= 8; k++ {
					if (k == 2 || k == 3 || k == 4) && len(m.E) == 0 {
						continue
					}
					if k == 6 && (len(m.E) == 0 || sortDomain(m.E) != 1) {
						continue
					}
					ops = append(ops, c09Op{Ph: 2, K: k, R: r})
				}
			}
			for i := range s.nats {
				for k := 9; k <= 11; k++ {
					ops = append(ops, c09Op{Ph: 2, K: k, I: i})
				}
			}
		}
		return ops
	}
}

// predictAndBind checks a derived list against the predicted elements. Nested containers may be
// shared or copied: adopt what is there, require equal content.
func bindDerived(w *model.World, ret at.List, want []interface{}, dst int, what string) (string, string) {
	if ret == nil {
		return what + " returned nil", "derived/nil"
	}
	if ret.Count() != len(want) {
		return fmt.Sprintf("%s gives %s, want %s", what, ret.String(), model.Show(model.NewL(want...))), "derived/" + opKind(what)
	}
	nm := model.NewL()
	if w.ModelOf(ret) != nil {
		return what + " returned an already existing list instead of a new one", "derived-identity/" + opKind(what)
	}
	w.Bind(nm, ret)
	for i, wv := range want {
		got := w.Adopt(ret.Get(i))
		if !model.DeepEqual(got, wv) {
			return fmt.Sprintf("%s: element %d is %s, want %s", what, i, model.Show(got), model.Show(wv)), "derived/" + opKind(what)
		}
		nm.E = append(nm.E, got)
	}
	w.Regs[dst] = nm
	return "", ""
}

func c09Apply(cfg c09Cfg) func(s *c09S, o c09Op) (string, string) {
	return func(s *c09S, o c09Op) (msg, sig string) {
		w := s.W
		recv := w.Regs[rRecv].(*model.L)
		arg := w.Regs[rArg].(*model.L)
		nest := w.Regs[rNest].(*model.L)
		rl, al, nl := w.RL(recv), w.RL(arg), w.RL(nest)
		n := len(recv.E)
		label := c09Label(o)
		var pv interface{}
		pn := false
		defer func() {
			if pn {
				msg, sig = fmt.Sprintf("%s panicked on receiver %s: %v", label, model.Show(recv), pv), "panic/"+opKind(label)
			}
		}()
		switch o.Ph {
		case 0:
			s.nA++
			rebind := func(l at.List, e ...interface{}) {
				m := model.NewL(e...)
				w.Bind(m, l)
				w.Regs[rRecv] = m
			}
			pn, pv = try(func() {
				switch o.K {
				case 0:
					rebind(at.NewList())
				case 1:
					rebind(at.NewListOf(1, 3), 1, 1, 1)
				case 2:
					rebind(at.NewListFrom([]interface{}{1, 2}), 1, 2)
				case 3:
					rl.Add(1)
					recv.E = append(recv.E, 1)
				case 4:
					rl.Add(2, nl)
					recv.E = append(recv.E, 2, nest)
				case 5:
					rl.Insert(0, 2)
					recv.E = append([]interface{}{2}, recv.E...)
				case 6:
					rl.Delete(0)
					recv.E = recv.E[1:]
				case 7:
					rl.Delete(n - 1)
					recv.E = recv.E[:n-1]
				case 8:
					rl.Pop()
					recv.E = recv.E[:n-1]
				case 9:
					rl.Clear()
					recv.E = nil
				case 10:
					c := rl.Clone()
					m := w.Adopt(c).(*model.L)
					if !model.DeepEqual(m, recv) {
						msg, sig = fmt.Sprintf("Clone of %s gives %s", model.Show(recv), model.Show(m)), "derived/Clone"
					}
					w.Regs[rRecv] = m
				case 11:
					msg, sig = bindDerived(w, rl.SubList(0, 0), recv.E, rRecv, "SubList(0,0)")
				case 12:
					msg, sig = bindDerived(w, rl.Concat(al), append(append([]interface{}{}, recv.E...), arg.E...), rRecv, "Concat(arg)")
				case 13:
					al.Add(9)
					arg.E = append(arg.E, 9)
				case 14:
					rl.Add(nl)
					recv.E = append(recv.E, nest)
				case 15:
					rl.Sort()
					sortModel(recv.E)
				case 16:
					rl.Reverse()
					for i, j := 0, len(recv.E)-1; i < j; i, j = i+1, j-1 {
						recv.E[i], recv.E[j] = recv.E[j], recv.E[i]
					}
				}
			})
			return
		case 1:
			if s.nB == 0 {
				s.firstK = o.K
			}
			s.nB++
			what := c09DeriveNames[o.K]
			sel := func(p func(i int, v interface{}) bool) []interface{} {
				var out []interface{}
				for i, v := range recv.E {
					if p(i, v) {
						out = append(out, v)
					}
				}
				return out
			}
			isInt := func(_ int, v interface{}) bool { _, ok := v.(int); return ok }
			isList := func(_ int, v interface{}) bool { _, ok := v.(*model.L); return ok }
			addNat := func(real interface{}, want []interface{}) {
				s.nats = append(s.nats, &natv{real: real, want: append([]interface{}{}, want...), desc: what})
				if reflect.ValueOf(real).Len() != len(want) {
					msg, sig = fmt.Sprintf("%s on %s has %d elements", what, model.Show(recv), reflect.ValueOf(real).Len()), "derived/"+opKind(what)
				}
			}
			pn, pv = try(func() {
				switch o.K {
				case 0:
					msg, sig = bindDerived(w, rl.Concat(al), append(append([]interface{}{}, recv.E...), arg.E...), o.R, what)
				case 1:
					msg, sig = bindDerived(w, rl.Concat(rl), append(append([]interface{}{}, recv.E...), recv.E...), o.R, what)
				case 2:
					msg, sig = bindDerived(w, rl.SubList(0, 0), recv.E, o.R, what)
				case 3:
					msg, sig = bindDerived(w, rl.SubList(1, 0), recv.E[1:], o.R, what)
				case 4:
					if n == 0 {
						msg, sig = bindDerived(w, rl.SubList(0, 0), recv.E, o.R, what)
					} else {
						msg, sig = bindDerived(w, rl.SubList(0, -1), recv.E[:n-1], o.R, what)
					}
				case 5:
					msg, sig = bindDerived(w, rl.Filter(func(interface{}) bool { return true }), recv.E, o.R, what)
				case 6:
					k := 0
					msg, sig = bindDerived(w, rl.Filter(func(interface{}) bool { k++; return k%2 == 1 }), sel(func(i int, _ interface{}) bool { return i%2 == 0 }), o.R, what)
				case 7:
					msg, sig = bindDerived(w, rl.FilterInts(func(int) bool { return true }), sel(isInt), o.R, what)
				case 8:
					msg, sig = bindDerived(w, rl.FilterLists(func(at.List) bool { return true }), sel(isList), o.R, what)
				case 9:
					msg, sig = bindDerived(w, rl.Map(func(_ int, v interface{}) interface{} { return v }), recv.E, o.R, what)
				case 10:
					msg, sig = bindDerived(w, rl.MapValues(func(v interface{}) interface{} { return v }), recv.E, o.R, what)
				case 11:
					msg, sig = bindDerived(w, rl.MapInts(func(v int) interface{} { return v }), sel(isInt), o.R, what)
				case 12:
					msg, sig = bindDerived(w, rl.MapLists(func(v at.List) interface{} { return v }), sel(isList), o.R, what)
				case 13:
					msg, sig = bindDerived(w, rl.MapAsync(func(_ int, v interface{}) interface{} { return v }), recv.E, o.R, what)
				case 14:
					c := rl.Clone()
					if w.ModelOf(c) != nil {
						msg, sig = "Clone returned an existing list", "derived-identity/Clone"
						return
					}
					m := w.Adopt(c).(*model.L)
					if !model.DeepEqual(m, recv) {
						msg, sig = fmt.Sprintf("Clone of %s gives %s", model.Show(recv), model.Show(m)), "derived/Clone"
					}
					w.Regs[o.R] = m
				case 15:
					addNat(rl.Slice(), recv.E)
				case 16:
					addNat(rl.IntSlice(), sel(isInt))
				case 17:
					addNat(rl.ListSlice(), sel(isList))
				case 18:
					ns := rl.NativeSlice()
					s.nats = append(s.nats, &natv{real: ns, want: nil, desc: what + " (deep native)", wmap: map[string]interface{}{"json": fmt.Sprint(ns)}})
				case 19:
					rl.Reduce(0, func(a, v interface{}) interface{} { return a })
					rl.ReduceInts(0, func(a, v int) int { return a + v })
					_ = rl.String()
					_ = rl.FormatString(2)
					rl.Equals(al)
					rl.Equals(rl)
					rl.Contains(1)
					rl.IndexOf(nl)
					rl.IntSlice()
					rl.Sum()
				}
			})
			return
		default:
			s.nC++
			if o.K >= 9 {
				nt := s.nats[o.I]
				pn, pv = try(func() { c09MutNative(nt, o.K) })
				return
			}
			m := w.Regs[o.R].(*model.L)
			l := w.RL(m)
			pn, pv = try(func() {
				switch o.K {
				case 0:
					l.Add(7)
					m.E = append(m.E, 7)
				case 1:
					l.Insert(0, 7)
					m.E = append([]interface{}{7}, m.E...)
				case 2:
					l.Replace(0, 7)
					m.E[0] = 7
				case 3:
					l.Delete(0)
					m.E = m.E[1:]
				case 4:
					l.Pop()
					m.E = m.E[:len(m.E)-1]
				case 5:
					l.Clear()
					m.E = nil
				case 6:
					l.Sort()
					sortModel(m.E)
				case 7:
					l.Reverse()
					for i, j := 0, len(m.E)-1; i < j; i, j = i+1, j-1 {
						m.E[i], m.E[j] = m.E[j], m.E[i]
					}
				case 8:
					l.Add(7, 8, 9)
					m.E = append(m.E, 7, 8, 9)
				}
			})
			return
		}
	}
}

// c09MutNative modifies a native Go result in place (and its expectation accordingly).
func c09MutNative(nt *natv, k int) {
	if nt.want == nil && nt.wmap != nil { // deep native: mutate the top level and one nested level if present
		ns := nt.real.([]interface{})
		if len(ns) > 0 {
			if inner, ok := ns[len(ns)-1].([]interface{}); ok && len(inner) > 0 {
				inner[0] = 1234
			}
			ns[0] = 4321
		}
		nt.wmap["json"] = fmt.Sprint(ns)
		return
	}
	rv := reflect.ValueOf(nt.real)
	switch k {
	case 9:
		if rv.Len() > 0 {
			switch x := nt.real.(type) {
			case []interface{}:
				x[0] = 77
				nt.want[0] = 77
			case []int:
				x[0] = 77
				nt.want[0] = 77
			case []at.List:
				x[0] = at.NewList(77)
				nt.want[0] = nil // no longer comparable with a model value; skip this slot
			}
		}
	case 10:
		if rv.Cap() > 0 {
			switch x := nt.real.(type) {
			case []interface{}:
				_ = append(x[:0], 55)
				if len(nt.want) > 0 {
					nt.want[0] = 55
				}
			case []int:
				_ = append(x[:0], 55)
				if len(nt.want) > 0 {
					nt.want[0] = 55
				}
			}
		}
	case 11:
		switch x := nt.real.(type) {
		case []interface{}:
			nt.real = append(x, 66)
			nt.want = append(nt.want, 66)
		case []int:
			nt.real = append(x, 66)
			nt.want = append(nt.want, 66)
		}
	}
}

func c09Check(s *c09S) (string, string) {
	if m, sg := s.W.Check(); m != "" {
		return m, sg
	}
	for i, nt := range s.nats {
		if nt.want == nil && nt.wmap != nil {
			if got := fmt.Sprint(nt.real); got != nt.wmap["json"] {
				return fmt.Sprintf("native result #%d (%s) changed behind its owner's back: now %s, was %s", i, nt.desc, got, nt.wmap["json"]), "native-changed/" + opKind(nt.desc)
			}
			continue
		}
		rv := reflect.ValueOf(nt.real)
		if rv.Len() != len(nt.want) {
			return fmt.Sprintf("native result #%d (%s) changed length to %d", i, nt.desc, rv.Len()), "native-changed/" + opKind(nt.desc)
		}
		for j := 0; j < rv.Len(); j++ {
			if nt.want[j] == nil {
				continue
			}
			if !sameReal(s.W, rv.Index(j).Interface(), nt.want[j]) {
				return fmt.Sprintf("native result #%d (%s) element %d is now %s, expected %s", i, nt.desc, j, show(rv.Index(j).Interface()), model.Show(nt.want[j])), "native-changed/" + opKind(nt.desc)
			}
		}
	}
	return "", ""
}

func c09Key(s *c09S) string {
	k := fmt.Sprintf("%d.%d.%d.%d|", s.nA, s.nB, s.nC, s.firstK) + s.W.Key()
	for _, nt := range s.nats {
		k += "|" + nt.desc + fmt.Sprint(reflect.ValueOf(nt.real).Len(), reflect.ValueOf(nt.real).Cap())
		if nt.want != nil {
			k += model.Show(model.NewL(nt.want...))
		} else {
			k += fmt.Sprint(nt.wmap["json"])
		}
	}
	return k
}

// ---------------- objects ----------------

type c09OS struct {
	W      *model.World // regs: 0 receiver, 1 argument, 2 result1, 3 result2, 4 nested list N, 5/6 list results (Keys/Values)
	dicts  []*natv
	nA, nB int
	nC     int
	firstK int
}

var c09OBuild = []string{"recv.Set(a,1)", "recv.Set(b,N)", "recv.Set(c,2)", "recv.Unset(a)", "recv.Clear()", "arg.Set(a,9)", "arg.Set(d,N)", "recv=recv.Clone()", "recv=recv.Merge(arg)", "recv=recv.Pluck()"}
var c09ODerive = []string{"Merge(arg)", "Merge(recv)", "Pluck()", "Pluck(a)", "Pluck(all keys)", "Map(identity)", "MapValues(identity)", "MapInts(identity)", "MapLists(identity)", "MapAsync(identity)", "Clone()",
	"Keys()", "Values()", "Dict()", "NativeDict()", "String/FormatString/Equals/Contains/KeyOf/KeyExists (pure calls)"}
var c09OMut = []string{"Set(a,7)", "Set(z,7)", "Unset(a)", "Unset(b)", "Clear()", "list.Add(7)", "list.Pop()", "dict[a]=77", "delete(dict,b)", "dict[new]=1"}

func c09OLabel(o c09Op) string {
	switch o.Ph {
	case 0:
		return c09OBuild[o.K]
	case 1:
		return fmt.Sprintf("d%d=recv.%s", o.R-1, c09ODerive[o.K])
	}
	if o.K >= 7 {
		return fmt.Sprintf("native#%d: %s", o.I, c09OMut[o.K])
	}
	return []string{"recv", "arg", "d1", "d2", "N", "d1", "d2"}[o.R] + "." + c09OMut[o.K]
}

func c09OInit() *c09OS {
	w := model.NewWorld(5)
	w.ProbeVals = []interface{}{1, 2, 7}
	w.ProbeKeys = []string{"a", "b", "c", "d", "z"}
	recv, arg, nest := model.NewO(), model.NewO(), model.NewL(5)
	w.Bind(recv, at.NewObject())
	w.Bind(arg, at.NewObject())
	w.Bind(nest, at.NewList(5))
	w.Regs[rRecv], w.Regs[rArg], w.Regs[rNest] = recv, arg, nest
	return &c09OS{W: w}
}

func c09OOps(cfg c09Cfg) func(s *c09OS) []c09Op {
	return func(s *c09OS) []c09Op {
		var ops []c09Op
		if s.nB == 0 && s.nC == 0 && s.nA < cfg.maxA {
			for k := range c09OBuild {
				ops = append(ops, c09Op{Ph: 0, K: k})
			}
		}
		if s.nC == 0 && s.nB < cfg.maxB {
			for k := range c09ODerive {
				if k == 3 {
					if _, ok := s.W.Regs[rRecv].(*model.O).M["a"]; !ok {
						continue
					}
				}
				if s.nB == 1 && !cfg.fullPairs && !(c09OStorage[s.firstK] && c09OStorage[k]) {
					continue
				}
				ops = append(ops, c09Op{Ph: 1, K: k, R: rD1 + s.nB})
			}
		}
		maxC := cfg.maxC
		if s.nB == 2 {
			maxC = 1
		}
		if s.nB > 0 && s.nC < maxC {
			for r := rRecv; r <= rNest; r++ {
				switch m := s.W.Regs[r].(type) {
				case *model.O:
					if m != nil {
						for k := 0; k <= 4; k++ {
							ops = append(ops, c09Op{Ph: 2, K: k, R: r})
						}
					}
				case *model.L:
					if m != nil {
						ops = append(ops, c09Op{Ph: 2, K: 5, R: r})
						if len(m.E) > 0 {
							ops = append(ops, c09Op{Ph: 2, K: 6, R: r})
						}
					}
				}
			}
			for i := range s.dicts {
				for k := 7; k <= 9; k++ {
					ops = append(ops, c09Op{Ph: 2, K: k, I: i})
				}
			}
		}
		return ops
	}
}

func bindDerivedObj(w *model.World, ret at.Object, want map[string]interface{}, dst int, what string) (string, string) {
	if ret == nil {
		return what + " returned nil", "derived/nil"
	}
	if w.ModelOf(ret) != nil {
		return what + " returned an already existing object instead of a new one", "derived-identity/" + opKind(what)
	}
	if ret.Count() != len(want) {
		return fmt.Sprintf("%s gives %s, want keys %v", what, ret.String(), keysOf(want)), "derived/" + opKind(what)
	}
	nm := model.NewO()
	w.Bind(nm, ret)
	for _, k := range keysOf(want) {
		if !ret.KeyExists(k) {
			return fmt.Sprintf("%s gives %s which lacks %q", what, ret.String(), k), "derived/" + opKind(what)
		}
		got := w.Adopt(ret.Get(k))
		if !model.DeepEqual(got, want[k]) {
			return fmt.Sprintf("%s: result[%q] = %s, want %s", what, k, model.Show(got), model.Show(want[k])), "derived/" + opKind(what)
		}
		nm.M[k] = got
	}
	w.Regs[dst] = nm
	return "", ""
}

func c09OApply(s *c09OS, o c09Op) (msg, sig string) {
	w := s.W
	recv := w.Regs[rRecv].(*model.O)
	arg := w.Regs[rArg].(*model.O)
	nest := w.Regs[rNest].(*model.L)
	ro, ao, nl := w.RO(recv), w.RO(arg), w.RL(nest)
	label := c09OLabel(o)
	var pv interface{}
	pn := false
	defer func() {
		if pn {
			msg, sig = fmt.Sprintf("%s panicked on receiver %s: %v", label, model.Show(recv), pv), "panic/"+opKind(label)
		}
	}()
	cp := func(m map[string]interface{}) map[string]interface{} {
		out := map[string]interface{}{}
		for k, v := range m {
			out[k] = v
		}
		return out
	}
	switch o.Ph {
	case 0:
		s.nA++
		pn, pv = try(func() {
			switch o.K {
			case 0:
				ro.Set("a", 1)
				recv.M["a"] = 1
			case 1:
				ro.Set("b", nl)
				recv.M["b"] = nest
			case 2:
				ro.Set("c", 2)
				recv.M["c"] = 2
			case 3:
				ro.Unset("a")
				delete(recv.M, "a")
			case 4:
				ro.Clear()
				recv.M = map[string]interface{}{}
			case 5:
				ao.Set("a", 9)
				arg.M["a"] = 9
			case 6:
				ao.Set("d", nl)
				arg.M["d"] = nest
			case 7:
				c := ro.Clone()
				m := w.Adopt(c).(*model.O)
				if !model.DeepEqual(m, recv) {
					msg, sig = "Clone differs from its source", "derived/Clone"
				}
				w.Regs[rRecv] = m
			case 8:
				want := cp(recv.M)
				for k, v := range arg.M {
					want[k] = v
				}
				msg, sig = bindDerivedObj(w, ro.Merge(ao), want, rRecv, "Merge(arg)")
			case 9:
				msg, sig = bindDerivedObj(w, ro.Pluck(), map[string]interface{}{}, rRecv, "Pluck()")
			}
		})
		return
	case 1:
		if s.nB == 0 {
			s.firstK = o.K
		}
		s.nB++
		what := c09ODerive[o.K]
		only := func(p func(v interface{}) bool) map[string]interface{} {
			out := map[string]interface{}{}
			for k, v := range recv.M {
				if p(v) {
					out[k] = v
				}
			}
			return out
		}
		pn, pv = try(func() {
			switch o.K {
			case 0:
				want := cp(recv.M)
				for k, v := range arg.M {
					want[k] = v
				}
				msg, sig = bindDerivedObj(w, ro.Merge(ao), want, o.R, what)
			case 1:
				msg, sig = bindDerivedObj(w, ro.Merge(ro), cp(recv.M), o.R, what)
			case 2:
				msg, sig = bindDerivedObj(w, ro.Pluck(), map[string]interface{}{}, o.R, what)
			case 3:
				msg, sig = bindDerivedObj(w, ro.Pluck("a"), map[string]interface{}{"a": recv.M["a"]}, o.R, what)
			case 4:
				// keys handed over as a spread slice in descending order with a duplicate: the callee sees the
				// caller's own slice and must not reorder or otherwise modify it (arguments stay unchanged)
				ks := keysOf(recv.M)
				for i, j := 0, len(ks)-1; i < j; i, j = i+1, j-1 {
					ks[i], ks[j] = ks[j], ks[i]
				}
				if len(ks) > 0 && len(ks)%2 == 1 {
					ks = append(ks, ks[0]) // odd key count: one key twice; even key count: exactly the key set
				}
				before := fmt.Sprint(ks)
				msg, sig = bindDerivedObj(w, ro.Pluck(ks...), cp(recv.M), o.R, what)
				if msg == "" && fmt.Sprint(ks) != before {
					msg, sig = fmt.Sprintf("Pluck(keys...) modified the caller's key slice: %s -> %v", before, ks), "argument-modified/Pluck"
				}
			case 5:
				msg, sig = bindDerivedObj(w, ro.Map(func(_ string, v interface{}) interface{} { return v }), cp(recv.M), o.R, what)
			case 6:
				msg, sig = bindDerivedObj(w, ro.MapValues(func(v interface{}) interface{} { return v }), cp(recv.M), o.R, what)
			case 7:
				msg, sig = bindDerivedObj(w, ro.MapInts(func(v int) interface{} { return v }), only(func(v interface{}) bool { _, ok := v.(int); return ok }), o.R, what)
			case 8:
				msg, sig = bindDerivedObj(w, ro.MapLists(func(v at.List) interface{} { return v }), only(func(v interface{}) bool { _, ok := v.(*model.L); return ok }), o.R, what)
			case 9:
				msg, sig = bindDerivedObj(w, ro.MapAsync(func(_ string, v interface{}) interface{} { return v }), cp(recv.M), o.R, what)
			case 10:
				c := ro.Clone()
				if w.ModelOf(c) != nil {
					msg, sig = "Clone returned an existing object", "derived-identity/Clone"
					return
				}
				m := w.Adopt(c).(*model.O)
				if !model.DeepEqual(m, recv) {
					msg, sig = "Clone differs from its source", "derived/Clone"
				}
				w.Regs[o.R] = m
			case 11, 12:
				var l at.List
				if o.K == 11 {
					l = ro.Keys()
				} else {
					l = ro.Values()
				}
				if w.ModelOf(l) != nil {
					msg, sig = what+" returned an existing list", "derived-identity/"+opKind(what)
					return
				}
				m := w.Adopt(l).(*model.L) // order follows map iteration: adopt it, check as a multiset
				var want []string
				for k, v := range recv.M {
					if o.K == 11 {
						want = append(want, model.Show(k))
					} else {
						want = append(want, model.Show(v))
					}
				}
				var got []string
				for _, e := range m.E {
					got = append(got, model.Show(e))
				}
				sort.Strings(want)
				sort.Strings(got)
				if fmt.Sprint(want) != fmt.Sprint(got) {
					msg, sig = fmt.Sprintf("%s on %s gives %v", what, model.Show(recv), got), "derived/"+opKind(what)
				}
				w.Regs[o.R] = m
			case 13:
				s.dicts = append(s.dicts, &natv{real: ro.Dict(), wmap: cp(recv.M), desc: what})
			case 14:
				nd := ro.NativeDict()
				s.dicts = append(s.dicts, &natv{real: nd, desc: what + " (deep native)", want: []interface{}{fmt.Sprint(nd)}})
			case 15:
				_ = ro.String()
				_ = ro.FormatString(3)
				ro.Equals(ao)
				ro.Equals(ro)
				ro.Contains(1)
				ro.Contains(nl)
				ro.KeyExists("a")
				try(func() { ro.KeyOf(1) })
				ro.Count()
			}
		})
		return
	default:
		s.nC++
		if o.K >= 7 {
			d := s.dicts[o.I]
			dm := d.real.(map[string]interface{})
			deep := d.wmap == nil
			switch o.K {
			case 7:
				dm["a"] = 77
				if !deep {
					d.wmap["a"] = 77
				}
			case 8:
				delete(dm, "b")
				if !deep {
					delete(d.wmap, "b")
				}
			case 9:
				dm["new"] = 1
				if inner, ok := dm["b"].([]interface{}); ok && len(inner) > 0 {
					inner[0] = 999
				}
				if !deep {
					d.wmap["new"] = 1
				}
			}
			if deep {
				d.want = []interface{}{fmt.Sprint(dm)}
			}
			return
		}
		pn, pv = try(func() {
			switch m := w.Regs[o.R].(type) {
			case *model.O:
				r := w.RO(m)
				switch o.K {
				case 0:
					r.Set("a", 7)
					m.M["a"] = 7
				case 1:
					r.Set("z", 7)
					m.M["z"] = 7
				case 2:
					r.Unset("a")
					delete(m.M, "a")
				case 3:
					r.Unset("b")
					delete(m.M, "b")
				case 4:
					r.Clear()
					m.M = map[string]interface{}{}
				}
			case *model.L:
				r := w.RL(m)
				if o.K == 5 {
					r.Add(7)
					m.E = append(m.E, 7)
				} else {
					r.Pop()
					m.E = m.E[:len(m.E)-1]
				}
			}
		})
		return
	}
}

func c09OCheck(s *c09OS) (string, string) {
	if m, sg := s.W.Check(); m != "" {
		return m, sg
	}
	for i, d := range s.dicts {
		dm := d.real.(map[string]interface{})
		if d.wmap == nil {
			if got := fmt.Sprint(dm); got != d.want[0] {
				return fmt.Sprintf("native result #%d (%s) changed behind its owner's back: now %s, was %s", i, d.desc, got, d.want[0]), "native-changed/" + opKind(d.desc)
			}
			continue
		}
		if len(dm) != len(d.wmap) {
			return fmt.Sprintf("native result #%d (%s) now has %d entries, expected %d", i, d.desc, len(dm), len(d.wmap)), "native-changed/" + opKind(d.desc)
		}
		for k, wv := range d.wmap {
			gv, ok := dm[k]
			if !ok || !sameReal(s.W, gv, wv) {
				return fmt.Sprintf("native result #%d (%s): entry %q is now %s, expected %s", i, d.desc, k, show(gv), model.Show(wv)), "native-changed/" + opKind(d.desc)
			}
		}
	}
	return "", ""
}

func c09OKey(s *c09OS) string {
	k := fmt.Sprintf("%d.%d.%d.%d|", s.nA, s.nB, s.nC, s.firstK) + s.W.Key()
	for _, d := range s.dicts {
		dm := d.real.(map[string]interface{})
		ks := keysOf(dm)
		k += "|" + d.desc + fmt.Sprint(ks)
		for _, kk := range ks {
			k += show(dm[kk])[:1]
		}
	}
	return k
}

func runC09(c *ev.Ctx) {
	defer sizeSweep(c, "C09")
	defer c09SlotOverwrites(c)
	cfg := c09Cfg{maxA: 3, maxB: 2, maxC: 2, maxLen: 5}
	ocfg := c09Cfg{maxA: 3, maxB: 2, maxC: 2}
	if c.Thorough() {
		cfg = c09Cfg{maxA: 4, maxB: 2, maxC: 2, maxLen: 6, fullPairs: true}
		ocfg = c09Cfg{maxA: 4, maxB: 2, maxC: 2, fullPairs: true}
	}
	c.Rule(fmt.Sprintf("explicit-state BFS in three phases on the real code. Lists: (A) receiver histories of <= %d steps over %d building operations (so every reachable private len/cap shape incl. cap > len, receivers that are themselves Clone/SubList/Concat results, nested container N held by reference); (B) <= %d derivations from the same receiver out of %d (Concat with argument / with itself, SubList x3, Filter x4, Map x5 incl. MapAsync, Clone, Slice, IntSlice, ListSlice, NativeSlice, a batch of pure calls); (C) <= %d mutations (1 after a derivation pair; pairs restricted to storage-bearing derivations unless thorough) out of %d applied to any of receiver / argument / result1 / result2 / N, and Go-level assignment / append-within-capacity / append on native results. Objects: the same with %d building ops, %d derivations (Merge x2, Pluck x3, Map x5, Clone, Keys, Values, Dict, NativeDict, pure calls) and Set/Unset/Clear + map writes. After every transition every container and every native result must show exactly what the value-semantics model predicts (nested containers may be shared or copied: adopted, content must be equal).", cfg.maxA, len(c09BuildNames), cfg.maxB, len(c09DeriveNames), cfg.maxC, len(c09MutNames), len(c09OBuild), len(c09ODerive)))
	c.Assume("nested containers may be shared by reference between a result and its source (statement allows it); top-level slots never", "Keys()/Values() order follows Go map iteration: compared as multisets")
	lsys := &bfs.System[*c09S, c09Op]{Name: "lists", Inits: []func() *c09S{c09Init(cfg.maxLen)}, Ops: c09Ops(cfg), Apply: c09Apply(cfg), Label: c09Label,
		Check: c09Check, Key: c09Key, MaxDepth: cfg.maxA + cfg.maxB + cfg.maxC,
		Describe: func(s *c09S) string { return fmt.Sprintf("%s ; natives=%d", s.W.Describe(), len(s.nats)) }}
	res := bfs.Run(c, lsys)
	c.Set("scenario/lists", map[string]interface{}{"states": res.States, "depth_completed": res.DepthCompleted, "state_space_closed": res.Exhausted})
	osys := &bfs.System[*c09OS, c09Op]{Name: "objects", Inits: []func() *c09OS{c09OInit}, Ops: c09OOps(ocfg), Apply: c09OApply, Label: c09OLabel,
		Check: c09OCheck, Key: c09OKey, MaxDepth: ocfg.maxA + ocfg.maxB + ocfg.maxC,
		Describe: func(s *c09OS) string { return fmt.Sprintf("%s ; natives=%d", s.W.Describe(), len(s.dicts)) }}
	if !c.Expired() {
		res = bfs.Run(c, osys)
		c.Set("scenario/objects", map[string]interface{}{"states": res.States, "depth_completed": res.DepthCompleted, "state_space_closed": res.Exhausted})
	}
}

// canonReal renders a real value deeply with object keys sorted.
func canonReal(v interface{}) string {
	switch x := v.(type) {
	case at.Object:
		ks := x.Keys().StringSlice()
		sort.Strings(ks)
		out := "{"
		for _, k := range ks {
			out += fmt.Sprintf("%q:%s,", k, canonReal(x.Get(k)))
		}
		return out + "}"
	case at.List:
		out := "["
		for i := 0; i < x.Count(); i++ {
			out += canonReal(x.Get(i)) + ","
		}
		return out + "]"
	case map[string]interface{}:
		ks := make([]string, 0, len(x))
		for k := range x {
			ks = append(ks, k)
		}
		sort.Strings(ks)
		out := "map{"
		for _, k := range ks {
			out += fmt.Sprintf("%q:%s,", k, canonReal(x[k]))
		}
		return out + "}"
	case []interface{}:
		out := "slice["
		for _, e := range x {
			out += canonReal(e) + ","
		}
		return out + "]"
	}
	return fmt.Sprintf("%T(%v)", v, v)
}

// c09SlotOverwrites: a receiver whose slots hold nested containers M and L, every deriving operation that shares
// them by reference, then ONE top-level mutation of the receiver (or of the result) that overwrites or removes such
// a slot - with a scalar, nil, another container, and with NATIVE Go maps/slices. The statement: a later Set /
// Replace / ... on one container never changes any of the others. The nested containers are shared, so they must
// not be rewritten in place either: the other side still holds them and must still see their old content.
func c09SlotOverwrites(c *ev.Ctx) {
	type party struct {
		name string
		v    interface{}
	}
	type world struct {
		recvO      at.Object
		recvL      at.List
		m          at.Object
		l          at.List
		parties    []party
		resObjects []at.Object
		resLists   []at.List
	}
	build := func() *world {
		w := &world{m: at.NewObject("k", 1), l: at.NewList(1, 2)}
		w.recvO = at.NewObject("o", w.m, "l", w.l, "s", 5)
		w.recvL = at.NewList(w.m, w.l, 5)
		other := at.NewObject("x", 0)
		addO := func(n string, o at.Object) {
			w.parties = append(w.parties, party{n, o})
			w.resObjects = append(w.resObjects, o)
		}
		addL := func(n string, l at.List) {
			w.parties = append(w.parties, party{n, l})
			w.resLists = append(w.resLists, l)
		}
		addO("Pluck(o,l)", w.recvO.Pluck("o", "l"))
		addO("other.Merge(recv)", other.Merge(w.recvO))
		addO("Map(identity)", w.recvO.Map(func(_ string, v interface{}) interface{} { return v }))
		addO("MapValues(identity)", w.recvO.MapValues(func(v interface{}) interface{} { return v }))
		addO("MapAsync(identity)", w.recvO.MapAsync(func(_ string, v interface{}) interface{} { return v }))
		addL("Values()", w.recvO.Values())
		w.parties = append(w.parties, party{"Dict()", w.recvO.Dict()})
		addL("SubList(0,0)", w.recvL.SubList(0, 0))
		addL("Concat(empty)", w.recvL.Concat(at.NewList()))
		addL("empty.Concat(recv)", at.NewList().Concat(w.recvL))
		addL("Filter(always)", w.recvL.Filter(func(interface{}) bool { return true }))
		addL("Map(identity)", w.recvL.Map(func(_ int, v interface{}) interface{} { return v }))
		addL("MapAsync(identity)", w.recvL.MapAsync(func(_ int, v interface{}) interface{} { return v }))
		w.parties = append(w.parties, party{"Slice()", w.recvL.Slice()})
		w.parties = append(w.parties, party{"the nested object itself", w.m}, party{"the nested list itself", w.l})
		return w
	}
	natM := func() interface{} { return map[string]interface{}{"z": 2} }
	natS := func() interface{} { return []interface{}{9} }
	muts := []struct {
		name string
		f    func(w *world, side int) // side 0: the receivers, side 1..: results
	}{
		{"Set/Replace the slot of the nested object with a native map", func(w *world, side int) { c09Overwrite(w.recvO, w.recvL, w.resObjects, w.resLists, side, 0, natM()) }},
		{"Set/Replace the slot of the nested list with a native slice", func(w *world, side int) { c09Overwrite(w.recvO, w.recvL, w.resObjects, w.resLists, side, 1, natS()) }},
		{"Set/Replace the slot of the nested object with a native slice", func(w *world, side int) { c09Overwrite(w.recvO, w.recvL, w.resObjects, w.resLists, side, 0, natS()) }},
		{"Set/Replace the slot of the nested list with a native map", func(w *world, side int) { c09Overwrite(w.recvO, w.recvL, w.resObjects, w.resLists, side, 1, natM()) }},
		{"Set/Replace the slot of the nested object with an equal-looking object", func(w *world, side int) {
			c09Overwrite(w.recvO, w.recvL, w.resObjects, w.resLists, side, 0, at.NewObject("k", 1))
		}},
		{"Set/Replace the slot of the nested object with nil", func(w *world, side int) { c09Overwrite(w.recvO, w.recvL, w.resObjects, w.resLists, side, 0, nil) }},
		{"Set/Replace the slot of the nested list with a scalar", func(w *world, side int) { c09Overwrite(w.recvO, w.recvL, w.resObjects, w.resLists, side, 1, "x") }},
	}
	for mi, mu := range muts {
		for side := 0; side < 2; side++ {
			w := build()
			before := make([]string, len(w.parties))
			for i, p := range w.parties {
				before[i] = canonReal(p.v)
			}
			c.Eval(1)
			c.Nontrivial(fmt.Sprintf("slot-overwrite/%d/%d", mi, side))
			if pn, pv := try(func() { mu.f(w, side) }); pn {
				c.Violate(ev.Violation{Sig: "slot-overwrite/panic", Msg: fmt.Sprintf("%s (side %d) panicked: %v", mu.name, side, pv), Witness: mu.name}, nil)
				continue
			}
			for i, p := range w.parties {
				if side == 1 && (i < len(w.parties)-2) {
					continue // the results were mutated themselves on this side: only the nested containers and the receivers are judged
				}
				if got := canonReal(p.v); got != before[i] {
					c.Violate(ev.Violation{Sig: "slot-overwrite/other-changed", Msg: fmt.Sprintf("%s on %s: %s changed from %s to %s", mu.name, []string{"the receiver", "every result"}[side], p.name, before[i], got), Witness: mu.name}, nil)
					break
				}
			}
			if side == 1 {
				if got := canonReal(w.recvO); got != canonReal(at.NewObject("o", at.NewObject("k", 1), "l", at.NewList(1, 2), "s", 5)) {
					c.Violate(ev.Violation{Sig: "slot-overwrite/receiver-changed", Msg: fmt.Sprintf("%s on every result: the receiver object changed to %s", mu.name, got), Witness: mu.name}, nil)
				}
				if got := canonReal(w.recvL); got != canonReal(at.NewList(at.NewObject("k", 1), at.NewList(1, 2), 5)) {
					c.Violate(ev.Violation{Sig: "slot-overwrite/receiver-changed", Msg: fmt.Sprintf("%s on every result: the receiver list changed to %s", mu.name, got), Witness: mu.name}, nil)
				}
			}
		}
	}
	c.Set("slot_overwrites", map[string]interface{}{"derivations": 14, "mutations": len(muts), "sides": "receiver / every result"})
}

// c09Overwrite writes v into the slot holding the nested object (which = 0) or the nested list (which = 1): on the
// receivers (side 0) or on every derived object/list (side 1).
func c09Overwrite(recvO at.Object, recvL at.List, resO []at.Object, resL []at.List, side, which int, v interface{}) {
	key := []string{"o", "l"}[which]
	if side == 0 {
		recvO.Set(key, v)
		recvL.Replace(which, v)
		return
	}
	for _, o := range resO {
		if o.KeyExists(key) {
			o.Set(key, v)
		}
	}
	for _, l := range resL {
		if l.Count() > which {
			l.Replace(which, v)
		}
	}
}
