package checks

import (
	"fmt"
	"sync/atomic"

	at "github.com/DanielSvub/anytype"

	"verif/ev"
	"verif/par"
	"verif/spec"
)

// Equals re-asked after in-place edits (lesson of round 10: state kept between calls). For every tree and every
// container in it (the root included): two equal builds a, b; Equals both ways (true); the container is edited
// in b through its own handle -> false both ways; the same edit in a -> true again; both edits undone -> true.

func c07EditAt(root interface{}, p []nstep, undo bool) bool {
	ok := true
	pn, _ := try(func() {
		switch t := realAt(root, p).(type) {
		case at.List:
			if undo {
				t.Pop()
			} else {
				t.Add(9)
			}
		case at.Object:
			if undo {
				t.Unset(nestedEditKey)
			} else {
				t.Set(nestedEditKey, 9)
			}
		default:
			ok = false
		}
	})
	return ok && !pn
}

func c07AfterEditsOne(v *spec.V) (msg, sig string, evals int) {
	paths := [][]nstep{nil}
	nestedPaths(v, nil, &paths)
	for _, p := range paths {
		a, b := v.Build(), v.Build()
		ask := func(want bool, when string) (string, string) {
			for dir := 0; dir < 2; dir++ {
				x, y := a, b
				if dir == 1 {
					x, y = b, a
				}
				evals++
				got, pn, pv := equalsRoot(x, y)
				if pn || got != want {
					return fmt.Sprintf("two builds of %s, %s (edit = Add(9) / Set(%q,9) on the container at path %v; direction %d): Equals = %v (panic=%v %v), want %v", v, when, nestedEditKey, p, dir, got, pn, pv, want), "equals-after-edit/" + map[bool]string{true: "wrong-false", false: "wrong-true"}[want]
				}
			}
			return "", ""
		}
		if m, _ := ask(true, "untouched"); m != "" {
			return "", "", evals // reported by the square
		}
		if !c07EditAt(b, p, false) {
			continue
		}
		if m, s := ask(false, "after the right one was edited in place"); m != "" {
			return m, s, evals
		}
		if !c07EditAt(a, p, false) {
			continue
		}
		if m, s := ask(true, "after both were edited in place the same way"); m != "" {
			return m, s, evals
		}
		if !c07EditAt(a, p, true) {
			continue
		}
		if m, s := ask(false, "after the edit of the left one was undone"); m != "" {
			return m, s, evals
		}
		if !c07EditAt(b, p, true) {
			continue
		}
		if m, s := ask(true, "after both edits were undone"); m != "" {
			return m, s, evals
		}
	}
	return "", "", evals
}

func c07AfterEdits(c *ev.Ctx, sets ...[]*spec.V) {
	var total int64
	for _, set := range sets {
		set := set
		par.Range(c.Workers, int64(len(set)), 16, func() bool { return c.Expired() || c.TooMany() }, func(w int, i int64) {
			v := set[i]
			var msg, sig string
			var k int
			if pn, pv := try(func() { msg, sig, k = c07AfterEditsOne(v) }); pn {
				msg, sig = fmt.Sprintf("Equals after in-place edits of %s: harness-side panic %v", v, pv), "equals-after-edit/panic"
			}
			c.Eval(k)
			atomic.AddInt64(&total, int64(k))
			if msg != "" {
				c.Violate(ev.Violation{Sig: sig, Msg: msg, Witness: map[string]interface{}{"tree": v.String()}}, func() string {
					s := ""
					if pn, _ := try(func() { _, s, _ = c07AfterEditsOne(v) }); pn {
						return "equals-after-edit/panic"
					}
					return s
				})
			}
		})
	}
	c.Set("equals_after_in_place_edits", map[string]interface{}{"equals_calls": total,
		"rule": "every tree of the square x every container in it (root included): two equal builds; Equals both ways before, after the container was edited in one operand, in both, undone in one, undone in both"})
}
