package checks

import (
	"encoding/json"
	"fmt"
	"math"
	"reflect"
	"sync/atomic"
	"time"

	at "github.com/DanielSvub/anytype"
	"verif/ev"
	"verif/par"
	"verif/spec"
)

func init() { register("C12", "exploration", runC12) }

// c12Val is one Go value offered to the library together with what must come back.
type c12Val struct {
	In    interface{}
	Want  *spec.V // nil => unsupported: must panic
	Class string
	// Ident, when true, means In is itself a container and must come back identical
	Ident bool
}

type c12Entry struct {
	Name string
	// Run stores v and returns where it must be found. *tgt is set to the pre-existing
	// target (if any) before the storing call so it can be inspected after a panic.
	Run func(v interface{}, tgt *interface{}) (cont interface{}, slot interface{})
}

func c12Entries() []c12Entry {
	L, O := at.NewList, at.NewObject
	cb := func(v interface{}) func(int, interface{}) interface{} {
		return func(int, interface{}) interface{} { return v }
	}
	ocb := func(v interface{}) func(string, interface{}) interface{} {
		return func(string, interface{}) interface{} { return v }
	}
	return []c12Entry{
		{"NewList(v)", func(v interface{}, t *interface{}) (interface{}, interface{}) { return L(v), 0 }},
		{"NewList(1,v,2)", func(v interface{}, t *interface{}) (interface{}, interface{}) { return L(1, v, 2), 1 }},
		{"NewListOf(v,3)", func(v interface{}, t *interface{}) (interface{}, interface{}) { return at.NewListOf(v, 3), 2 }},
		{"NewListFrom([]any{v})", func(v interface{}, t *interface{}) (interface{}, interface{}) {
			return at.NewListFrom([]interface{}{v}), 0
		}},
		{"Add(v)", func(v interface{}, t *interface{}) (interface{}, interface{}) { l := L(7); *t = l; return l.Add(v), 1 }},
		{"Add(1,v)", func(v interface{}, t *interface{}) (interface{}, interface{}) {
			l := L()
			*t = l
			return l.Add(1, v), 1
		}},
		{"Insert(1,v) middle", func(v interface{}, t *interface{}) (interface{}, interface{}) {
			l := L(1, 2)
			*t = l
			return l.Insert(1, v), 1
		}},
		{"Insert(n,v) end", func(v interface{}, t *interface{}) (interface{}, interface{}) {
			l := L(1)
			*t = l
			return l.Insert(1, v), 1
		}},
		{"Replace(0,v)", func(v interface{}, t *interface{}) (interface{}, interface{}) {
			l := L(1, 2)
			*t = l
			return l.Replace(0, v), 0
		}},
		{"list.SetTF(#0,v) append", func(v interface{}, t *interface{}) (interface{}, interface{}) {
			l := L()
			*t = l
			return l.SetTF("#0", v), 0
		}},
		{"list.SetTF(#0,v) replace", func(v interface{}, t *interface{}) (interface{}, interface{}) {
			l := L(1)
			*t = l
			return l.SetTF("#0", v), 0
		}},
		{"list.SetTF(#2,v) pad", func(v interface{}, t *interface{}) (interface{}, interface{}) {
			l := L()
			*t = l
			return l.SetTF("#2", v), 2
		}},
		{"list.SetTF(#0.k,v)", func(v interface{}, t *interface{}) (interface{}, interface{}) {
			l := L()
			*t = l
			l.SetTF("#0.k", v)
			return l.GetObject(0), "k"
		}},
		{"list.SetTF(#0#1,v)", func(v interface{}, t *interface{}) (interface{}, interface{}) {
			l := L()
			*t = l
			l.SetTF("#0#1", v)
			return l.GetList(0), 1
		}},
		{"NewObject(k,v)", func(v interface{}, t *interface{}) (interface{}, interface{}) { return O("k", v), "k" }},
		{"NewObjectFrom(map[string]any{k:v})", func(v interface{}, t *interface{}) (interface{}, interface{}) {
			return at.NewObjectFrom(map[string]interface{}{"k": v}), "k"
		}},
		{"Set(k,v)", func(v interface{}, t *interface{}) (interface{}, interface{}) {
			o := O("z", 1)
			*t = o
			return o.Set("k", v), "k"
		}},
		{"Set(a,1,k,v) overwrite", func(v interface{}, t *interface{}) (interface{}, interface{}) {
			o := O("k", "old")
			*t = o
			return o.Set("a", 1, "k", v), "k"
		}},
		{"object.SetTF(.k,v)", func(v interface{}, t *interface{}) (interface{}, interface{}) {
			o := O()
			*t = o
			return o.SetTF(".k", v), "k"
		}},
		{"object.SetTF(.a.k,v)", func(v interface{}, t *interface{}) (interface{}, interface{}) {
			o := O()
			*t = o
			o.SetTF(".a.k", v)
			return o.GetObject("a"), "k"
		}},
		{"object.SetTF(.a#0,v)", func(v interface{}, t *interface{}) (interface{}, interface{}) {
			o := O()
			*t = o
			o.SetTF(".a#0", v)
			return o.GetList("a"), 0
		}},
		{"list.Map", func(v interface{}, t *interface{}) (interface{}, interface{}) { return L(0, 0).Map(cb(v)), 1 }},
		{"list.MapValues", func(v interface{}, t *interface{}) (interface{}, interface{}) {
			return L(0).MapValues(func(interface{}) interface{} { return v }), 0
		}},
		{"list.MapObjects", func(v interface{}, t *interface{}) (interface{}, interface{}) {
			return L(O()).MapObjects(func(at.Object) interface{} { return v }), 0
		}},
		{"list.MapLists", func(v interface{}, t *interface{}) (interface{}, interface{}) {
			return L(L()).MapLists(func(at.List) interface{} { return v }), 0
		}},
		{"list.MapStrings", func(v interface{}, t *interface{}) (interface{}, interface{}) {
			return L("s").MapStrings(func(string) interface{} { return v }), 0
		}},
		{"list.MapBools", func(v interface{}, t *interface{}) (interface{}, interface{}) {
			return L(true).MapBools(func(bool) interface{} { return v }), 0
		}},
		{"list.MapInts", func(v interface{}, t *interface{}) (interface{}, interface{}) {
			return L(1).MapInts(func(int) interface{} { return v }), 0
		}},
		{"list.MapFloats", func(v interface{}, t *interface{}) (interface{}, interface{}) {
			return L(1.5).MapFloats(func(float64) interface{} { return v }), 0
		}},
		{"list.MapAsync", func(v interface{}, t *interface{}) (interface{}, interface{}) { return L(0).MapAsync(cb(v)), 0 }},
		{"object.Map", func(v interface{}, t *interface{}) (interface{}, interface{}) { return O("k", 0).Map(ocb(v)), "k" }},
		{"object.MapValues", func(v interface{}, t *interface{}) (interface{}, interface{}) {
			return O("k", 0).MapValues(func(interface{}) interface{} { return v }), "k"
		}},
		{"object.MapObjects", func(v interface{}, t *interface{}) (interface{}, interface{}) {
			return O("k", O()).MapObjects(func(at.Object) interface{} { return v }), "k"
		}},
		{"object.MapLists", func(v interface{}, t *interface{}) (interface{}, interface{}) {
			return O("k", L()).MapLists(func(at.List) interface{} { return v }), "k"
		}},
		{"object.MapStrings", func(v interface{}, t *interface{}) (interface{}, interface{}) {
			return O("k", "s").MapStrings(func(string) interface{} { return v }), "k"
		}},
		{"object.MapBools", func(v interface{}, t *interface{}) (interface{}, interface{}) {
			return O("k", true).MapBools(func(bool) interface{} { return v }), "k"
		}},
		{"object.MapInts", func(v interface{}, t *interface{}) (interface{}, interface{}) {
			return O("k", 1).MapInts(func(int) interface{} { return v }), "k"
		}},
		{"object.MapFloats", func(v interface{}, t *interface{}) (interface{}, interface{}) {
			return O("k", 1.5).MapFloats(func(float64) interface{} { return v }), "k"
		}},
		{"object.MapAsync", func(v interface{}, t *interface{}) (interface{}, interface{}) { return O("k", 0).MapAsync(ocb(v)), "k" }},
	}
}

// probe reads a slot through every reader of the public API.
type c12Probe struct {
	got     interface{}
	typ     at.Type
	getters [6]interface{} // object,list,string,bool,int,float ; nil = panicked
	ok      [6]bool
}

func c12Read(cont interface{}, slot interface{}) (p c12Probe, err string) {
	if pn, v := try(func() {
		switch c := cont.(type) {
		case at.List:
			i := slot.(int)
			p.got, p.typ = c.Get(i), c.TypeOf(i)
			fs := []func() interface{}{func() interface{} { return c.GetObject(i) }, func() interface{} { return c.GetList(i) }, func() interface{} { return c.GetString(i) },
				func() interface{} { return c.GetBool(i) }, func() interface{} { return c.GetInt(i) }, func() interface{} { return c.GetFloat(i) }}
			for k, f := range fs {
				f := f
				pn, _ := try(func() { p.getters[k] = f() })
				p.ok[k] = !pn
			}
		case at.Object:
			s := slot.(string)
			p.got, p.typ = c.Get(s), c.TypeOf(s)
			fs := []func() interface{}{func() interface{} { return c.GetObject(s) }, func() interface{} { return c.GetList(s) }, func() interface{} { return c.GetString(s) },
				func() interface{} { return c.GetBool(s) }, func() interface{} { return c.GetInt(s) }, func() interface{} { return c.GetFloat(s) }}
			for k, f := range fs {
				f := f
				pn, _ := try(func() { p.getters[k] = f() })
				p.ok[k] = !pn
			}
		default:
			panic(fmt.Sprintf("entry returned %T", cont))
		}
	}); pn {
		return p, fmt.Sprint(v)
	}
	return p, ""
}

var c12GetterNames = []string{"GetObject", "GetList", "GetString", "GetBool", "GetInt", "GetFloat"}

// getter index that must succeed per spec kind (-1: none)
func c12Getter(k spec.Kind) int {
	switch k {
	case spec.Obj:
		return 0
	case spec.Lst:
		return 1
	case spec.Str:
		return 2
	case spec.Bool:
		return 3
	case spec.Int:
		return 4
	case spec.Float:
		return 5
	}
	return -1
}

// validKinds reports whether every slot of a container holds one of the seven kinds.
func validKinds(t interface{}) string {
	switch c := t.(type) {
	case at.List:
		for i := 0; i < c.Count(); i++ {
			if c.TypeOf(i) == at.TypeUndefined {
				return fmt.Sprintf("slot %d has undefined kind", i)
			}
			v := c.Get(i)
			if !sevenKinds(v) {
				return fmt.Sprintf("slot %d holds %T", i, v)
			}
		}
	case at.Object:
		bad := ""
		c.ForEach(func(k string, v interface{}) {
			if c.TypeOf(k) == at.TypeUndefined || !sevenKinds(v) {
				bad = fmt.Sprintf("field %q holds %T", k, v)
			}
		})
		return bad
	}
	return ""
}

func sevenKinds(v interface{}) bool {
	switch v.(type) {
	case nil, at.Object, at.List, string, bool, int, float64:
		return true
	}
	return false
}

func c12One(e c12Entry, val c12Val) (msg, sig string) {
	if val.Want == nil && (e.Name == "list.MapAsync" || e.Name == "object.MapAsync") {
		// the rejection panic is raised inside a worker goroutine, where no caller can recover it:
		// the process would die. Not executable in-process; recorded as a limitation, not judged.
		return "", ""
	}
	var cont, slot, tgt interface{}
	pn, pv := try(func() { cont, slot = e.Run(val.In, &tgt) })
	if val.Want == nil { // unsupported
		if !pn {
			return fmt.Sprintf("%s accepted an unsupported %T value instead of panicking", e.Name, val.In), "norm/unsupported-accepted/" + val.Class
		}
		if tgt != nil {
			if bad := validKinds(tgt); bad != "" {
				return fmt.Sprintf("%s with an unsupported %T panicked but left the target with %s", e.Name, val.In, bad), "norm/unsupported-stored/" + val.Class
			}
		}
		return "", ""
	}
	if pn {
		return fmt.Sprintf("%s panicked on supported value %T(%v): %v", e.Name, val.In, val.In, pv), "norm/panic/" + val.Class
	}
	p, err := c12Read(cont, slot)
	if err != "" {
		return fmt.Sprintf("%s with %T(%v): reading the slot back panicked: %s", e.Name, val.In, val.In, err), "norm/read-panic/" + val.Class
	}
	w := val.Want
	if p.typ != w.K.Type() {
		return fmt.Sprintf("%s with %T(%v): TypeOf reports %d, want kind %s", e.Name, val.In, val.In, p.typ, w.K), "norm/typeof/" + val.Class
	}
	if val.Ident {
		if p.got != val.In {
			return fmt.Sprintf("%s with a container: Get does not return the identical container", e.Name), "norm/identity/" + val.Class
		}
	} else if m := spec.MatchWith(p.got, w, spec.MatchOpt{FloatBits: true}); m != "" {
		return fmt.Sprintf("%s with %T(%v): stored value differs: %s", e.Name, val.In, val.In, m), "norm/value/" + val.Class
	}
	if w.K == spec.Int || w.K == spec.Float || w.K == spec.Str || w.K == spec.Bool {
		wantT := reflect.TypeOf(w.Native())
		if reflect.TypeOf(p.got) != wantT {
			return fmt.Sprintf("%s with %T(%v): Get returns Go type %T, want %v", e.Name, val.In, val.In, p.got, wantT), "norm/gotype/" + val.Class
		}
	}
	if w.IsContainer() && !val.Ident {
		// a second conversion of the same Go value must give ANOTHER container, independent of the first
		var cont2, slot2, tgt2 interface{}
		if pn2, _ := try(func() { cont2, slot2 = e.Run(val.In, &tgt2) }); !pn2 {
			if p2, err2 := c12Read(cont2, slot2); err2 == "" {
				if p2.got == p.got {
					return fmt.Sprintf("%s with %T: two conversions of the same Go value give the identical container", e.Name, val.In), "norm/conversion-shared/" + val.Class
				}
				switch x := p.got.(type) {
				case at.List:
					x.Add("touched")
				case at.Object:
					x.Set("touched", 1)
				}
				if m := spec.Match(p2.got, w); m != "" {
					return fmt.Sprintf("%s with %T: modifying the container made by one conversion changes the container made by another: %s", e.Name, val.In, m), "norm/conversion-shared/" + val.Class
				}
				switch x := p.got.(type) { // undo, the first container is inspected further below
				case at.List:
					x.Pop()
				case at.Object:
					x.Unset("touched")
				}
			}
		}
	}
	g := c12Getter(w.K)
	for k := 0; k < 6; k++ {
		if p.ok[k] != (k == g) {
			return fmt.Sprintf("%s with %T(%v) (kind %s): %s panicked=%v", e.Name, val.In, val.In, w.K, c12GetterNames[k], !p.ok[k]), "norm/getter/" + val.Class
		}
	}
	if g >= 0 && !val.Ident {
		if m := spec.MatchWith(p.getters[g], w, spec.MatchOpt{FloatBits: true}); m != "" {
			return fmt.Sprintf("%s with %T(%v): %s returns a different value: %s", e.Name, val.In, val.In, c12GetterNames[g], m), "norm/getter-value/" + val.Class
		}
	}
	return "", ""
}

type myInt int
type myStr string

// c12Natives: the supported map/slice flavours with 0..2 entries, also nested two deep.
func c12Natives() []c12Val {
	var out []c12Val
	add := func(in interface{}, w *spec.V, cl string) { out = append(out, c12Val{In: in, Want: w, Class: cl}) }
	o1, l1 := at.NewObject("x", 1), at.NewList(2)
	for n := 0; n <= 2; n++ {
		ks := []string{"a", "b"}[:n]
		// slices
		{
			sa, so, sl, ss, sb, si, sf := make([]interface{}, n), make([]at.Object, n), make([]at.List, n), make([]string, n), make([]bool, n), make([]int, n), make([]float64, n)
			var wa, wo, wl, ws, wb, wi, wf []*spec.V
			for i := 0; i < n; i++ {
				sa[i], so[i], sl[i], ss[i], sb[i], si[i], sf[i] = int8(i+1), o1, l1, fmt.Sprint("s", i), i == 0, i+5, float64(i)+0.5
				wa = append(wa, spec.I(i+1))
				wo = append(wo, spec.O(spec.P("x", spec.I(1))))
				wl = append(wl, spec.L(spec.I(2)))
				ws = append(ws, spec.S(fmt.Sprint("s", i)))
				wb = append(wb, spec.B(i == 0))
				wi = append(wi, spec.I(i+5))
				wf = append(wf, spec.F(float64(i)+0.5))
			}
			add(sa, spec.L(wa...), "slice-any")
			add(so, spec.L(wo...), "slice-Object")
			add(sl, spec.L(wl...), "slice-List")
			add(ss, spec.L(ws...), "slice-string")
			add(sb, spec.L(wb...), "slice-bool")
			add(si, spec.L(wi...), "slice-int")
			add(sf, spec.L(wf...), "slice-float64")
			// nested two deep
			add([]interface{}{sa, map[string]interface{}{"in": si}}, spec.L(spec.L(wa...), spec.O(spec.P("in", spec.L(wi...)))), "nested-slice")
			add(map[string]interface{}{"p": []interface{}{sf, ss}, "q": map[string]interface{}{"r": sb}}, spec.O(spec.P("p", spec.L(spec.L(wf...), spec.L(ws...))), spec.P("q", spec.O(spec.P("r", spec.L(wb...))))), "nested-map")
		}
		// maps
		{
			ma, mo, ml, ms, mb, mi, mf := map[string]interface{}{}, map[string]at.Object{}, map[string]at.List{}, map[string]string{}, map[string]bool{}, map[string]int{}, map[string]float64{}
			var wa, wo, wl, ws, wb, wi, wf []spec.KV
			for i, k := range ks {
				ma[k], mo[k], ml[k], ms[k], mb[k], mi[k], mf[k] = uint16(i+1), o1, l1, fmt.Sprint("s", i), i == 0, i+5, float64(i)+0.5
				wa = append(wa, spec.P(k, spec.I(i+1)))
				wo = append(wo, spec.P(k, spec.O(spec.P("x", spec.I(1)))))
				wl = append(wl, spec.P(k, spec.L(spec.I(2))))
				ws = append(ws, spec.P(k, spec.S(fmt.Sprint("s", i))))
				wb = append(wb, spec.P(k, spec.B(i == 0)))
				wi = append(wi, spec.P(k, spec.I(i+5)))
				wf = append(wf, spec.P(k, spec.F(float64(i)+0.5)))
			}
			add(ma, spec.O(wa...), "map-any")
			add(mo, spec.O(wo...), "map-Object")
			add(ml, spec.O(wl...), "map-List")
			add(ms, spec.O(ws...), "map-string")
			add(mb, spec.O(wb...), "map-bool")
			add(mi, spec.O(wi...), "map-int")
			add(mf, spec.O(wf...), "map-float64")
			add(map[string]interface{}{"m": mi, "n": []interface{}{mf}}, spec.O(spec.P("m", spec.O(wi...)), spec.P("n", spec.L(spec.O(wf...)))), "nested-map")
		}
	}
	// typed nil slices/maps of the supported flavours are empty slices/maps: they become fresh empty containers
	add([]string(nil), spec.L(), "typed-nil-supported")
	add([]interface{}(nil), spec.L(), "typed-nil-supported")
	add([]float64(nil), spec.L(), "typed-nil-supported")
	add([]at.Object(nil), spec.L(), "typed-nil-supported")
	add(map[string]interface{}(nil), spec.O(), "typed-nil-supported")
	add(map[string]int(nil), spec.O(), "typed-nil-supported")
	add(map[string]at.List(nil), spec.O(), "typed-nil-supported")
	add([]interface{}{[]string(nil), map[string]bool(nil)}, spec.L(spec.L(), spec.O()), "typed-nil-supported")
	// nil interface values inside the typed container flavours (and inside []any / map[string]any): a nil is the nil kind
	wo1, wl1 := spec.O(spec.P("x", spec.I(1))), spec.L(spec.I(2))
	add([]at.Object{nil}, spec.L(spec.NilV), "slice-Object-nil")
	add([]at.Object{o1, nil}, spec.L(wo1, spec.NilV), "slice-Object-nil")
	add([]at.Object{nil, o1}, spec.L(spec.NilV, wo1), "slice-Object-nil")
	add([]at.List{nil}, spec.L(spec.NilV), "slice-List-nil")
	add([]at.List{l1, nil}, spec.L(wl1, spec.NilV), "slice-List-nil")
	add([]at.List{nil, l1}, spec.L(spec.NilV, wl1), "slice-List-nil")
	add(map[string]at.Object{"a": nil, "b": o1}, spec.O(spec.P("a", spec.NilV), spec.P("b", wo1)), "map-Object-nil")
	add(map[string]at.List{"a": nil, "b": l1}, spec.O(spec.P("a", spec.NilV), spec.P("b", wl1)), "map-List-nil")
	add([]interface{}{nil, at.Object(nil), at.List(nil)}, spec.L(spec.NilV, spec.NilV, spec.NilV), "slice-any-nil")
	add(map[string]interface{}{"a": nil, "b": at.List(nil), "c": []at.Object{nil}}, spec.O(spec.P("a", spec.NilV), spec.P("b", spec.NilV), spec.P("c", spec.L(spec.NilV))), "map-any-nil")
	return out
}

func c12Unsupported() []c12Val {
	x := 5
	var out []c12Val
	for _, u := range []struct {
		v  interface{}
		cl string
	}{{(*int)(nil), "nil-*int"}, {(func())(nil), "nil-func"}, {(chan int)(nil), "nil-chan"}, {[]int32(nil), "nil-[]int32"}, {map[int]string(nil), "nil-map[int]string"}, {(*time.Time)(nil), "nil-*time.Time"},
		{[]interface{}{(*int)(nil)}, "[]any-with-nil-*int-inside"}, {struct{}{}, "struct"}, {time.Time{}, "time.Time"}, {&x, "*int"}, {[]int8{1}, "[]int8"}, {[]uint{1}, "[]uint"}, {map[int]string{1: "a"}, "map[int]string"},
		{map[string]uint8{"a": 1}, "map[string]uint8"}, {[2]int{1, 2}, "[2]int"}, {make(chan int), "chan"}, {func() {}, "func"}, {complex(1, 2), "complex128"},
		{uintptr(7), "uintptr"}, {myInt(3), "named-int"}, {myStr("s"), "named-string"}, {json.Number("1"), "json.Number"}, {[]interface{}{1, struct{}{}}, "[]any-with-struct-inside"},
		{map[string]interface{}{"a": []interface{}{complex64(1)}}, "map-with-complex-inside"}, {int8(1) == 1 && false || true && false, ""}} {
		if u.cl == "" {
			continue
		}
		out = append(out, c12Val{In: u.v, Want: nil, Class: "unsupported-" + u.cl})
	}
	return out
}

func runC12(c *ev.Ctx) {
	defer sizeSweep(c, "C12")
	entries := c12Entries()
	var vals []c12Val
	addv := func(in interface{}, w *spec.V, cl string) { vals = append(vals, c12Val{In: in, Want: w, Class: cl}) }
	for i := -128; i <= 127; i++ {
		addv(int8(i), spec.I(i), "int8")
	}
	for i := 0; i <= 255; i++ {
		addv(uint8(i), spec.I(i), "uint8")
	}
	step16 := 1
	for i := -32768; i <= 32767; i += step16 {
		addv(int16(i), spec.I(i), "int16")
	}
	for i := 0; i <= 65535; i += step16 {
		addv(uint16(i), spec.I(i), "uint16")
	}
	for _, i := range intsI() {
		addv(i, spec.I(i), "int")
		addv(int64(i), spec.I(i), "int64")
		if i >= math.MinInt32 && i <= math.MaxInt32 {
			addv(int32(i), spec.I(i), "int32")
		}
		if i >= 0 {
			addv(uint(i), spec.I(i), "uint")
			addv(uint64(i), spec.I(i), "uint64")
			if i <= math.MaxUint32 {
				addv(uint32(i), spec.I(i), "uint32")
			}
		}
	}
	for _, sign := range []uint32{0, 1 << 31} {
		for e := uint32(0); e <= 254; e++ {
			for _, m := range []uint32{0, 1, 1 << 22, 1<<23 - 1, 0x2AAAAA, 0x555555, 0x400001, 0x3FFFFF} {
				f := math.Float32frombits(sign | e<<23 | m)
				addv(f, spec.F(float64(f)), "float32")
			}
		}
	}
	for _, f := range floatsF() {
		addv(f, spec.F(f), "float64")
	}
	// the far end of the float range: non-finite values are floats like any other
	for _, f := range []float64{math.NaN(), math.Inf(1), math.Inf(-1)} {
		addv(f, spec.F(f), "float64-nonfinite")
		f32 := float32(f)
		addv(f32, spec.F(float64(f32)), "float32-nonfinite")
	}
	stringsUpTo(2, func(s string) bool { addv(s, spec.S(s), "string"); return true })
	addv(true, spec.B(true), "bool")
	addv(false, spec.B(false), "bool")
	addv(nil, spec.NilV, "nil")
	// typed slice/map flavours carrying every scalar of the boundary alphabets
	for _, f := range floatsF() {
		addv([]float64{0.5, f}, spec.L(spec.F(0.5), spec.F(f)), "slice-float64-elem")
		addv(map[string]float64{"k": f}, spec.O(spec.P("k", spec.F(f))), "map-float64-elem")
	}
	for _, i := range intsI() {
		addv([]int{i, 1}, spec.L(spec.I(i), spec.I(1)), "slice-int-elem")
		addv(map[string]int{"k": i}, spec.O(spec.P("k", spec.I(i))), "map-int-elem")
		addv([]interface{}{int64(i)}, spec.L(spec.I(i)), "slice-any-int64-elem")
	}
	stringsUpTo(2, func(s string) bool {
		addv([]string{s}, spec.L(spec.S(s)), "slice-string-elem")
		addv(map[string]string{s: s}, spec.O(spec.P(s, spec.S(s))), "map-string-elem")
		addv(map[string]interface{}{s: nil}, spec.O(spec.P(s, spec.NilV)), "map-any-key")
		return true
	})
	vals = append(vals, c12Natives()...)
	vals = append(vals, c12Unsupported()...)
	// containers by reference
	vals = append(vals, c12Val{In: at.NewObject("q", 1), Want: spec.O(spec.P("q", spec.I(1))), Class: "Object-by-reference", Ident: true},
		c12Val{In: at.NewList(1, "z"), Want: spec.L(spec.I(1), spec.S("z")), Class: "List-by-reference", Ident: true})

	c.Rule(fmt.Sprintf("values = all 256 int8, all 256 uint8, all 65 536 int16, all 65 536 uint16, the boundary-int alphabet as int/int64/int32/uint/uint64/uint32 (unsigned only up to MaxInt), float32 sign x all 255 finite exponents x 8 mantissa patterns (subnormals included), the float64 grid, every string of <= 2 symbols over 34 escape classes, bools, nil, all 7 slice and 7 map flavours with 0..2 entries also nested two deep, containers by reference, and %d unsupported Go types; each through %d entry points (constructors, mutators, 5 tree-form branches, 18 Map* callbacks). Total %d values. Oracle: Go type and value of Get, TypeOf, exactly the matching typed getter succeeds, natives become fresh containers equal to the specification, unsupported values panic and leave only the seven kinds in the target. Non-trivial = distinct (entry point, value) pair whose value is not already a canonical int/float64/string/bool/nil (i.e. needs normalisation) or is unsupported.", len(c12Unsupported()), len(entries), len(vals)))
	c.Assume("unsigned values above MaxInt are outside the statement (\"when representable\") and not generated", "the receiver's state after a panicking multi-slot operation is not judged here beyond: every slot holds one of the seven kinds")
	names := make([]string, len(entries))
	for i, e := range entries {
		names[i] = e.Name
	}
	c.Set("entry_points", names)
	// Two phases. A value that a synchronous entry point mishandles (rejects although supported, say) is NOT sent
	// through the async entry points afterwards: there the library converts the callback's result inside a worker
	// goroutine, where a panic cannot be recovered by anybody and would end the whole check before it has reported.
	var syncE, asyncE []c12Entry
	for _, e := range entries {
		if e.Name == "list.MapAsync" || e.Name == "object.MapAsync" {
			asyncE = append(asyncE, e)
		} else {
			syncE = append(syncE, e)
		}
	}
	bad := make([]int32, len(vals))
	total := int64(len(vals)) * int64(len(entries))
	var done int64
	for phase, entries := range [][]c12Entry{syncE, asyncE} {
		phase, entries := phase, entries
		ptotal := int64(len(vals)) * int64(len(entries))
		done += par.Range(c.Workers, ptotal, 4096, func() bool { return c.Expired() || c.TooMany() }, func(w int, idx int64) {
			e := entries[idx%int64(len(entries))]
			vi := idx / int64(len(entries))
			val := vals[vi]
			if phase == 1 && atomic.LoadInt32(&bad[vi]) != 0 {
				return
			}
			c.Eval(1)
			switch val.Class {
			case "int", "float64", "string", "bool", "nil":
			default:
				c.NontrivialH(uint64(idx)*2654435761 + 1)
			}
			if idx%400009 == 11 {
				c.Sample(map[string]interface{}{"entry": e.Name, "go_type": fmt.Sprintf("%T", val.In), "value": fmt.Sprintf("%v", val.In), "class": val.Class})
			}
			if msg, sig := c12One(e, val); msg != "" {
				atomic.StoreInt32(&bad[vi], 1)
				c.Violate(ev.Violation{Sig: sig + "/" + e.Name, Msg: msg, Witness: map[string]interface{}{"entry": e.Name, "go_type": fmt.Sprintf("%T", val.In), "value": fmt.Sprintf("%#v", val.In)}},
					func() string { _, s := c12One(e, val); return s + "/" + e.Name })
			}
		})
	}
	if done < total && (c.Expired() || c.TooMany()) {
		c.Cut(fmt.Sprintf("%d of %d (value, entry) pairs", done, total))
	}
	// freshness: a native source mutated after construction must not show through
	c12Fresh(c)
}

// c12Fresh: containers built from Go maps/slices must own their storage at every level.
func c12Fresh(c *ev.Ctx) {
	inner := []interface{}{1, 2}
	innerM := map[string]interface{}{"a": 1}
	srcS := []interface{}{inner, innerM, "x"}
	srcM := map[string]interface{}{"s": inner, "m": innerM}
	builds := []struct {
		name string
		mk   func() interface{}
		want *spec.V
	}{
		{"NewListFrom([]any)", func() interface{} { return at.NewListFrom(srcS) }, spec.L(spec.L(spec.I(1), spec.I(2)), spec.O(spec.P("a", spec.I(1))), spec.S("x"))},
		{"NewList([]any)", func() interface{} { return at.NewList(srcS).Get(0) }, spec.L(spec.L(spec.I(1), spec.I(2)), spec.O(spec.P("a", spec.I(1))), spec.S("x"))},
		{"NewObjectFrom(map)", func() interface{} { return at.NewObjectFrom(srcM) }, spec.O(spec.P("s", spec.L(spec.I(1), spec.I(2))), spec.P("m", spec.O(spec.P("a", spec.I(1)))))},
		{"Set(k, map)", func() interface{} { return at.NewObject("k", srcM).Get("k") }, spec.O(spec.P("s", spec.L(spec.I(1), spec.I(2))), spec.P("m", spec.O(spec.P("a", spec.I(1)))))},
	}
	for _, b := range builds {
		inner[0], inner[1] = 1, 2
		innerM["a"] = 1
		delete(innerM, "zz")
		srcS[2] = "x"
		got := b.mk()
		inner[0] = 99
		innerM["a"] = 98
		innerM["zz"] = 1
		srcS[2] = "changed"
		c.Eval(1)
		c.Nontrivial("fresh/" + b.name)
		if m := spec.Match(got, b.want); m != "" {
			c.Violate(ev.Violation{Sig: "norm/source-aliased/" + b.name, Msg: fmt.Sprintf("%s: modifying the Go source afterwards changes the container: %s", b.name, m), Witness: b.name}, nil)
		}
	}
	inner[0], inner[1] = 1, 2
}
