package checks

import (
	"fmt"
	"reflect"
	"regexp"
	"sort"
	"sync/atomic"
	"strconv"

	at "github.com/DanielSvub/anytype"
	"verif/ev"
	"verif/par"
)

func init() { register("C14", "exploration", runC14) }

// kind classes of the 13-value alphabet (see k13)
const (
	kNil = iota
	kBool
	kInt
	kFloat
	kStr
	kList
	kObj
)

var k13Kind = []int{kNil, kBool, kBool, kInt, kInt, kFloat, kFloat, kStr, kStr, kList, kList, kObj, kObj, kList, kObj}

// k15 = k13 plus a derived list and a derived object (user types embedding List/Object): they are Lists /
// Objects for every typed view
func k15() []interface{} { return append(k13(), newDL(3), newDO("d", 4)) }

var k15Names = append(append([]string{}, k13Names...), "derivedL[3]", "derivedO{d:4}")

func names15(dg []int) []string {
	out := make([]string, len(dg))
	for i, d := range dg {
		out[i] = k15Names[d]
	}
	return out
}

var kindNames = []string{"Nil", "Bool", "Int", "Float", "String", "List", "Object"}

// tagOf is the pure function used in Map callbacks: containers are returned as they are
// (identity must survive), scalars are rendered with their Go type.
func tagOf(x interface{}) interface{} {
	switch v := x.(type) {
	case at.List, at.Object:
		return v
	case nil:
		return "nil"
	default:
		return fmt.Sprintf("%T:%v", x, x)
	}
}

// predicates: stateful ones are created fresh per call
func c14Preds() []struct {
	name string
	mk   func() func(interface{}) bool
} {
	return []struct {
		name string
		mk   func() func(interface{}) bool
	}{
		{"always", func() func(interface{}) bool { return func(interface{}) bool { return true } }},
		{"never", func() func(interface{}) bool { return func(interface{}) bool { return false } }},
		{"every-other-call", func() func(interface{}) bool {
			n := 0
			return func(interface{}) bool { n++; return n%2 == 1 }
		}},
		{"equals-first-seen", func() func(interface{}) bool {
			var first interface{}
			seen := false
			return func(x interface{}) bool {
				if !seen {
					first, seen = x, true
				}
				return sameVal(x, first)
			}
		}},
	}
}

func toAny[T any](s []T) []interface{} {
	out := make([]interface{}, len(s))
	for i, x := range s {
		out[i] = x
	}
	return out
}

// c14List runs every typed/untyped view on one list. Returns the first discrepancy.
func c14List(dg []int) (msg, sig string) {
	for _, h := range []int{0, 2, 6} {
		if len(dg) == 0 && h != 0 {
			continue
		}
		if m, s := c14ListHist(dg, h); m != "" {
			return m + " [list built by: " + c17HistNames[h] + "]", s
		}
	}
	return "", ""
}

// c14Edited: views queried, the list changed in place, views queried AGAIN on the same list (seeded change
// C14-10a: the common kind of the elements is cached by the All* predicates and Delete does not drop the cache).
// One edit out of the full menu, then optionally one removal; the views are queried before and after each.
type c14Edit struct {
	name string
	do   func(l at.List, alpha []interface{})
	dg   []int
}

func c14EditMenu(dg []int, removalsOnly bool) []c14Edit {
	var out []c14Edit
	n := len(dg)
	without := func(i int) []int { return append(append([]int{}, dg[:i]...), dg[i+1:]...) }
	for i := 0; i < n; i++ {
		i := i
		out = append(out, c14Edit{fmt.Sprintf("Delete(%d)", i), func(l at.List, _ []interface{}) { l.Delete(i) }, without(i)})
		out = append(out, c14Edit{fmt.Sprintf("UnsetTF(#%d)", i), func(l at.List, _ []interface{}) { l.UnsetTF(fmt.Sprintf("#%d", i)) }, without(i)})
	}
	if n > 0 {
		out = append(out, c14Edit{"Pop()", func(l at.List, _ []interface{}) { l.Pop() }, without(n - 1)})
	}
	if removalsOnly {
		return out
	}
	out = append(out, c14Edit{"Clear()", func(l at.List, _ []interface{}) { l.Clear() }, []int{}})
	rev := make([]int, n)
	for i := range dg {
		rev[n-1-i] = dg[i]
	}
	out = append(out, c14Edit{"Reverse()", func(l at.List, _ []interface{}) { l.Reverse() }, rev})
	for d := 0; d < 15; d++ {
		d := d
		out = append(out, c14Edit{"Add(" + k15Names[d] + ")", func(l at.List, a []interface{}) { l.Add(a[d]) }, append(append([]int{}, dg...), d)})
		out = append(out, c14Edit{"Insert(0," + k15Names[d] + ")", func(l at.List, a []interface{}) { l.Insert(0, a[d]) }, append([]int{d}, dg...)})
		for i := 0; i < n; i++ {
			i := i
			rp := append([]int{}, dg...)
			rp[i] = d
			out = append(out, c14Edit{fmt.Sprintf("Replace(%d,%s)", i, k15Names[d]), func(l at.List, a []interface{}) { l.Replace(i, a[d]) }, rp})
			out = append(out, c14Edit{fmt.Sprintf("SetTF(#%d,%s)", i, k15Names[d]), func(l at.List, a []interface{}) { l.SetTF(fmt.Sprintf("#%d", i), a[d]) }, rp})
		}
	}
	return out
}

func c14ListEdited(dg []int) (msg, sig string, evals int) {
	valsOf := func(alpha []interface{}, dg []int) []interface{} {
		v := make([]interface{}, len(dg))
		for i, d := range dg {
			v[i] = alpha[d]
		}
		return v
	}
	for _, e1 := range c14EditMenu(dg, false) {
		seconds := append([]c14Edit{{name: ""}}, c14EditMenu(e1.dg, true)...)
		for _, e2 := range seconds {
			alpha := k15()
			l := at.NewList(valsOf(alpha, dg)...)
			if m, _ := c14Views(l, dg, valsOf(alpha, dg)); m != "" {
				return "", "", evals // the plain space reports it
			}
			if pn, _ := try(func() { e1.do(l, alpha) }); pn {
				continue // mutators are judged by C05
			}
			evals++
			if m, s := c14Views(l, e1.dg, valsOf(alpha, e1.dg)); m != "" {
				return fmt.Sprintf("views had been queried on %v, then %s: %s", names15(dg), e1.name, m), "after-edit/" + s, evals
			}
			if e2.name == "" {
				continue
			}
			if pn, _ := try(func() { e2.do(l, alpha) }); pn {
				continue
			}
			evals++
			if m, s := c14Views(l, e2.dg, valsOf(alpha, e2.dg)); m != "" {
				return fmt.Sprintf("views had been queried on %v, then %s, queried, then %s: %s", names15(dg), e1.name, e2.name, m), "after-edit/" + s, evals
			}
		}
	}
	return "", "", evals
}

func c14ListHist(dg []int, h int) (msg, sig string) {
	alpha := k15()
	vals := make([]interface{}, len(dg))
	for i, d := range dg {
		vals[i] = alpha[d]
	}
	var l at.List
	if len(vals) == 0 {
		l = at.NewList()
	} else {
		l = buildHist(h, vals, "pad")
	}
	return c14Views(l, dg, vals)
}

// c14Views compares every typed view of l with the reference selection from (dg, vals), the digits and
// values l is expected to hold.
func c14Views(l at.List, dg []int, vals []interface{}) (msg, sig string) {
	names := names15(dg)
	sub := func(k int) []interface{} {
		var out []interface{}
		for i, d := range dg {
			if k13Kind[d] == k {
				out = append(out, vals[i])
			}
		}
		return out
	}
	fail := func(what string, got, want []interface{}) (string, string) {
		return fmt.Sprintf("%s on %v: got %s, want %s", what, names, showSeq(got), showSeq(want)), "views/" + what
	}
	// ---- typed slices
	slices := map[int]func() []interface{}{
		kObj: func() []interface{} { return toAny(l.ObjectSlice()) }, kList: func() []interface{} { return toAny(l.ListSlice()) },
		kStr: func() []interface{} { return toAny(l.StringSlice()) }, kBool: func() []interface{} { return toAny(l.BoolSlice()) },
		kInt: func() []interface{} { return toAny(l.IntSlice()) }, kFloat: func() []interface{} { return toAny(l.FloatSlice()) },
	}
	// ---- typed ForEach (log) ; return value must be the list
	foreach := map[int]func(log *[]interface{}) at.List{
		kObj:   func(log *[]interface{}) at.List { return l.ForEachObject(func(x at.Object) { *log = append(*log, x) }) },
		kList:  func(log *[]interface{}) at.List { return l.ForEachList(func(x at.List) { *log = append(*log, x) }) },
		kStr:   func(log *[]interface{}) at.List { return l.ForEachString(func(x string) { *log = append(*log, x) }) },
		kBool:  func(log *[]interface{}) at.List { return l.ForEachBool(func(x bool) { *log = append(*log, x) }) },
		kInt:   func(log *[]interface{}) at.List { return l.ForEachInt(func(x int) { *log = append(*log, x) }) },
		kFloat: func(log *[]interface{}) at.List { return l.ForEachFloat(func(x float64) { *log = append(*log, x) }) },
	}
	maps := map[int]func(log *[]interface{}) at.List{
		kObj: func(log *[]interface{}) at.List {
			return l.MapObjects(func(x at.Object) interface{} { *log = append(*log, x); return tagOf(x) })
		},
		kList: func(log *[]interface{}) at.List {
			return l.MapLists(func(x at.List) interface{} { *log = append(*log, x); return tagOf(x) })
		},
		kStr: func(log *[]interface{}) at.List {
			return l.MapStrings(func(x string) interface{} { *log = append(*log, x); return tagOf(x) })
		},
		kBool: func(log *[]interface{}) at.List {
			return l.MapBools(func(x bool) interface{} { *log = append(*log, x); return tagOf(x) })
		},
		kInt: func(log *[]interface{}) at.List {
			return l.MapInts(func(x int) interface{} { *log = append(*log, x); return tagOf(x) })
		},
		kFloat: func(log *[]interface{}) at.List {
			return l.MapFloats(func(x float64) interface{} { *log = append(*log, x); return tagOf(x) })
		},
	}
	filters := map[int]func(p func(interface{}) bool) at.List{
		kObj:   func(p func(interface{}) bool) at.List { return l.FilterObjects(func(x at.Object) bool { return p(x) }) },
		kList:  func(p func(interface{}) bool) at.List { return l.FilterLists(func(x at.List) bool { return p(x) }) },
		kStr:   func(p func(interface{}) bool) at.List { return l.FilterStrings(func(x string) bool { return p(x) }) },
		kInt:   func(p func(interface{}) bool) at.List { return l.FilterInts(func(x int) bool { return p(x) }) },
		kFloat: func(p func(interface{}) bool) at.List { return l.FilterFloats(func(x float64) bool { return p(x) }) },
	}
	alls := map[int]func() bool{kObj: l.AllObjects, kList: l.AllLists, kStr: l.AllStrings, kBool: l.AllBools, kInt: l.AllInts, kFloat: l.AllFloats}
	for _, k := range []int{kObj, kList, kStr, kBool, kInt, kFloat} {
		want := sub(k)
		kn := kindNames[k]
		if got := slices[k](); !sameSeq(got, want) {
			return fail(kn+"Slice", got, want)
		}
		var log []interface{}
		if ret := foreach[k](&log); ret != l {
			return fmt.Sprintf("ForEach%s on %v did not return the list", kn, names), "views/ForEach" + kn + "/return"
		}
		if !sameSeq(log, want) {
			return fail("ForEach"+kn, log, want)
		}
		log = nil
		res := maps[k](&log)
		if !sameSeq(log, want) {
			return fail("Map"+kn+"(callback arguments)", log, want)
		}
		wantMapped := make([]interface{}, len(want))
		for i, x := range want {
			wantMapped[i] = tagOf(x)
		}
		if got := snapList(res); !sameSeq(got, wantMapped) {
			return fail("Map"+kn+"(result)", got, wantMapped)
		}
		if f, ok := filters[k]; ok {
			for _, pr := range c14Preds() {
				p := pr.mk()
				var wantF []interface{}
				for _, x := range want {
					if p(x) {
						wantF = append(wantF, x)
					}
				}
				if got := snapList(f(pr.mk())); !sameSeq(got, wantF) {
					return fail("Filter"+kn+"s("+pr.name+")", got, wantF)
				}
			}
		}
		all := len(want) == len(vals)
		if got := alls[k](); got != all {
			return fmt.Sprintf("All%ss on %v = %v, want %v", kn, names, got, all), "views/All" + kn
		}
	}
	numeric := len(sub(kInt))+len(sub(kFloat)) == len(vals)
	if got := l.AllNumeric(); got != numeric {
		return fmt.Sprintf("AllNumeric on %v = %v, want %v", names, got, numeric), "views/AllNumeric"
	}
	// ---- typed reductions with non-commutative folds
	{
		want := "^"
		for _, x := range sub(kStr) {
			want = want + "|" + x.(string)
		}
		if got := l.ReduceStrings("^", func(a, x string) string { return a + "|" + x }); got != want {
			return fmt.Sprintf("ReduceStrings on %v = %q, want %q", names, got, want), "views/ReduceStrings"
		}
		wi := 7
		for _, x := range sub(kInt) {
			wi = wi*31 + x.(int)
		}
		if got := l.ReduceInts(7, func(a, x int) int { return a*31 + x }); got != wi {
			return fmt.Sprintf("ReduceInts on %v = %d, want %d", names, got, wi), "views/ReduceInts"
		}
		wf := 7.0
		for _, x := range sub(kFloat) {
			wf = wf*0.5 + x.(float64)
		}
		if got := l.ReduceFloats(7, func(a, x float64) float64 { return a*0.5 + x }); got != wf {
			return fmt.Sprintf("ReduceFloats on %v = %v, want %v", names, got, wf), "views/ReduceFloats"
		}
		got := l.Reduce([]interface{}{}, func(a, x interface{}) interface{} { return append(a.([]interface{}), x) }).([]interface{})
		if !sameSeq(got, vals) {
			return fail("Reduce", got, vals)
		}
	}
	// ---- untyped views
	{
		var idx []int
		var log []interface{}
		if ret := l.ForEach(func(i int, v interface{}) { idx = append(idx, i); log = append(log, v) }); ret != l {
			return "ForEach did not return the list", "views/ForEach/return"
		}
		for i := range idx {
			if idx[i] != i {
				return fmt.Sprintf("ForEach on %v visited indices %v", names, idx), "views/ForEach/index"
			}
		}
		if !sameSeq(log, vals) {
			return fail("ForEach", log, vals)
		}
		log = nil
		l.ForEachValue(func(v interface{}) { log = append(log, v) })
		if !sameSeq(log, vals) {
			return fail("ForEachValue", log, vals)
		}
		wantM := make([]interface{}, len(vals))
		for i, x := range vals {
			wantM[i] = tagOf(x)
			if s, ok := wantM[i].(string); ok {
				wantM[i] = strconv.Itoa(i) + "=" + s
			}
		}
		idx = nil
		res := l.Map(func(i int, v interface{}) interface{} {
			idx = append(idx, i)
			t := tagOf(v)
			if s, ok := t.(string); ok {
				return strconv.Itoa(i) + "=" + s
			}
			return t
		})
		if got := snapList(res); !sameSeq(got, wantM) || len(idx) != len(vals) {
			return fail("Map", got, wantM)
		}
		for i, x := range vals {
			wantM[i] = tagOf(x)
		}
		if got := snapList(l.MapValues(tagOf)); !sameSeq(got, wantM) {
			return fail("MapValues", got, wantM)
		}
		for _, pr := range c14Preds() {
			p := pr.mk()
			var wantF []interface{}
			for _, x := range vals {
				if p(x) {
					wantF = append(wantF, x)
				}
			}
			if got := snapList(l.Filter(pr.mk())); !sameSeq(got, wantF) {
				return fail("Filter("+pr.name+")", got, wantF)
			}
		}
	}
	if !sameSeq(snapList(l), vals) {
		return fmt.Sprintf("a view modified the list %v", names), "views/modified"
	}
	return "", ""
}

// multiset rendering of (key,value) pairs with container identity
func pairKey(k string, v interface{}) string {
	switch x := v.(type) {
	case at.List:
		return fmt.Sprintf("%s=L@%p", k, x)
	case at.Object:
		return fmt.Sprintf("%s=O@%p", k, x)
	default:
		return fmt.Sprintf("%s=%T:%v", k, v, v)
	}
}

func sortedStrings(s []string) []string { sort.Strings(s); return s }

func c14Object(keys []string, dg []int) (msg, sig string) {
	alpha := k15()
	o := at.NewObject()
	vals := map[string]interface{}{}
	for i, k := range keys {
		o.Set(k, alpha[dg[i]])
		vals[k] = alpha[dg[i]]
	}
	desc := fmt.Sprint(keys, names15(dg))
	kindOfKey := map[string]int{}
	for i, k := range keys {
		kindOfKey[k] = k13Kind[dg[i]]
	}
	wantPairs := func(k int) []string {
		var out []string
		for _, key := range keys {
			if k < 0 || kindOfKey[key] == k {
				out = append(out, pairKey(key, vals[key]))
			}
		}
		return sortedStrings(out)
	}
	wantVals := func(k int) []string {
		var out []string
		for _, key := range keys {
			if k < 0 || kindOfKey[key] == k {
				out = append(out, pairKey("", vals[key]))
			}
		}
		return sortedStrings(out)
	}
	eq := func(a, b []string) bool { return fmt.Sprint(a) == fmt.Sprint(b) }
	var got []string
	if ret := o.ForEach(func(k string, v interface{}) { got = append(got, pairKey(k, v)) }); ret != o {
		return "object ForEach did not return the object", "oviews/ForEach/return"
	}
	if !eq(sortedStrings(got), wantPairs(-1)) {
		return fmt.Sprintf("object ForEach on %s visited %v, want %v", desc, got, wantPairs(-1)), "oviews/ForEach"
	}
	got = nil
	o.ForEachValue(func(v interface{}) { got = append(got, pairKey("", v)) })
	if !eq(sortedStrings(got), wantVals(-1)) {
		return fmt.Sprintf("object ForEachValue on %s visited %v, want %v", desc, got, wantVals(-1)), "oviews/ForEachValue"
	}
	fe := map[int]func(add func(interface{})) at.Object{
		kObj:   func(add func(interface{})) at.Object { return o.ForEachObject(func(x at.Object) { add(x) }) },
		kList:  func(add func(interface{})) at.Object { return o.ForEachList(func(x at.List) { add(x) }) },
		kStr:   func(add func(interface{})) at.Object { return o.ForEachString(func(x string) { add(x) }) },
		kBool:  func(add func(interface{})) at.Object { return o.ForEachBool(func(x bool) { add(x) }) },
		kInt:   func(add func(interface{})) at.Object { return o.ForEachInt(func(x int) { add(x) }) },
		kFloat: func(add func(interface{})) at.Object { return o.ForEachFloat(func(x float64) { add(x) }) },
	}
	mp := map[int]func() at.Object{
		kObj:   func() at.Object { return o.MapObjects(func(x at.Object) interface{} { return tagOf(x) }) },
		kList:  func() at.Object { return o.MapLists(func(x at.List) interface{} { return tagOf(x) }) },
		kStr:   func() at.Object { return o.MapStrings(func(x string) interface{} { return tagOf(x) }) },
		kBool:  func() at.Object { return o.MapBools(func(x bool) interface{} { return tagOf(x) }) },
		kInt:   func() at.Object { return o.MapInts(func(x int) interface{} { return tagOf(x) }) },
		kFloat: func() at.Object { return o.MapFloats(func(x float64) interface{} { return tagOf(x) }) },
	}
	checkMapped := func(what string, res at.Object, k int, withKey bool) (string, string) {
		n := 0
		for _, key := range keys {
			if k >= 0 && kindOfKey[key] != k {
				if res.KeyExists(key) {
					return fmt.Sprintf("%s on %s: result has key %q whose source value is not of that kind", what, desc, key), "oviews/" + what
				}
				continue
			}
			n++
			if !res.KeyExists(key) {
				return fmt.Sprintf("%s on %s: result lacks key %q (%s)", what, desc, key, res.String()), "oviews/" + what
			}
			want := tagOf(vals[key])
			if s, ok := want.(string); ok && withKey {
				want = key + "=" + s
			}
			if !sameVal(res.Get(key), want) {
				return fmt.Sprintf("%s on %s: result[%q] = %s, want %s", what, desc, key, show(res.Get(key)), show(want)), "oviews/" + what
			}
		}
		if res.Count() != n {
			return fmt.Sprintf("%s on %s: result has %d fields, want %d", what, desc, res.Count(), n), "oviews/" + what
		}
		return "", ""
	}
	for _, k := range []int{kObj, kList, kStr, kBool, kInt, kFloat} {
		got = nil
		if ret := fe[k](func(x interface{}) { got = append(got, pairKey("", x)) }); ret != o {
			return "object typed ForEach did not return the object", "oviews/ForEach" + kindNames[k] + "/return"
		}
		if !eq(sortedStrings(got), wantVals(k)) {
			return fmt.Sprintf("object ForEach%s on %s visited %v, want %v", kindNames[k], desc, got, wantVals(k)), "oviews/ForEach" + kindNames[k]
		}
		if m, s := checkMapped("Map"+kindNames[k]+"s", mp[k](), k, false); m != "" {
			return m, s
		}
	}
	calls := 0
	res := o.Map(func(k string, v interface{}) interface{} {
		calls++
		t := tagOf(v)
		if s, ok := t.(string); ok {
			return k + "=" + s
		}
		return t
	})
	if calls != len(keys) {
		return fmt.Sprintf("object Map on %s called the function %d times", desc, calls), "oviews/Map/calls"
	}
	if m, s := checkMapped("Map", res, -1, true); m != "" {
		return m, s
	}
	if m, s := checkMapped("MapValues", o.MapValues(tagOf), -1, false); m != "" {
		return m, s
	}
	for _, key := range keys {
		if !sameVal(o.Get(key), vals[key]) || o.Count() != len(keys) {
			return fmt.Sprintf("a view modified the object %s", desc), "oviews/modified"
		}
	}
	return "", ""
}

var c14Covered = map[string]bool{}

func init() {
	for _, n := range []string{"ObjectSlice", "ListSlice", "StringSlice", "BoolSlice", "IntSlice", "FloatSlice", "ForEach", "ForEachValue",
		"ForEachObject", "ForEachList", "ForEachString", "ForEachBool", "ForEachInt", "ForEachFloat", "Map", "MapValues", "MapObjects", "MapLists",
		"MapStrings", "MapBools", "MapInts", "MapFloats", "Reduce", "ReduceStrings", "ReduceInts", "ReduceFloats", "Filter", "FilterObjects",
		"FilterLists", "FilterStrings", "FilterInts", "FilterFloats", "AllObjects", "AllLists", "AllStrings", "AllBools", "AllInts", "AllFloats", "AllNumeric"} {
		c14Covered["List."+n] = true
	}
	for _, n := range []string{"ForEach", "ForEachValue", "ForEachObject", "ForEachList", "ForEachString", "ForEachBool", "ForEachInt", "ForEachFloat",
		"Map", "MapValues", "MapObjects", "MapLists", "MapStrings", "MapBools", "MapInts", "MapFloats"} {
		c14Covered["Object."+n] = true
	}
}

var c14Pattern = regexp.MustCompile(`^(ForEach|Map|Filter|Reduce|All)[A-Z]?|Slice$`)

func runC14(c *ev.Ctx) {
	defer sizeSweep(c, "C14")
	maxLen, maxKeys := 4, 3
	if c.Thorough() {
		maxLen, maxKeys = 5, 4
	}
	c.Rule(fmt.Sprintf("every list of length 0..%d over the 15-value kinds alphabet (nil, 2 bools, 2 ints, 2 floats incl. whole-valued 1.0, 2 strings, 2 lists, 2 objects, a derived list and a derived object = user types embedding List/Object) through 3 construction histories: all 6 typed slices, 8 ForEach variants, 8 Map variants (callback argument log + result), 6 Filter variants x 4 predicates (2 stateful), 4 Reduce variants with non-commutative folds, 7 All* predicates; every object with 0..%d keys from {a,b,c,d} over the same alphabet: ForEach/ForEachValue/6 typed ForEach as multisets, Map/MapValues/6 typed Map results per key. Non-trivial = distinct container holding at least two elements of one kind separated or accompanied by another kind, or any container of >= 3 elements.", maxLen, maxKeys))
	c.Assume("ForEachAsync/MapAsync are covered by C15", "callbacks are drawn from a finite menu (logging identity, tagging map, 4 predicates, non-commutative folds)")
	// API discovery: typed-view-like methods without a driver are listed, not alarmed
	var uncovered []string
	for tn, t := range map[string]reflect.Type{"List": reflect.TypeOf((*at.List)(nil)).Elem(), "Object": reflect.TypeOf((*at.Object)(nil)).Elem()} {
		for i := 0; i < t.NumMethod(); i++ {
			n := t.Method(i).Name
			if n[0] >= 'A' && n[0] <= 'Z' && c14Pattern.MatchString(n) && !c14Covered[tn+"."+n] && n != "ForEachAsync" && n != "MapAsync" && n != "Slice" && n != "NativeSlice" {
				uncovered = append(uncovered, tn+"."+n)
			}
		}
	}
	sort.Strings(uncovered)
	c.Set("view_methods_without_driver", uncovered)
	stop := func() bool { return c.Expired() || c.TooMany() }
	total, offs := powSum(15, 0, maxLen)
	done := par.Range(c.Workers, total, 1024, stop, func(w int, idx int64) {
		n, rest := decodeLen(idx, 0, offs)
		dg := digits(rest, 15, n, nil)
		c.Eval(1)
		if n >= 3 {
			c.Nontrivial(fmt.Sprint("l", dg))
		}
		if idx%20011 == 3 {
			c.Sample(map[string]interface{}{"container": "list", "elements": names15(dg)})
		}
		var msg, sig string
		if pn, pv := try(func() { msg, sig = c14List(dg) }); pn {
			msg, sig = fmt.Sprintf("a typed view of the list %v panicked: %v", names15(dg), pv), "views/panic"
		}
		if msg != "" {
			dg2 := append([]int{}, dg...)
			c.Violate(ev.Violation{Sig: sig, Msg: msg, Witness: map[string]interface{}{"list": names15(dg2)}}, func() string {
				s := ""
				if pn, _ := try(func() { _, s = c14List(dg2) }); pn {
					return "views/panic"
				}
				return s
			})
		}
	})
	if done < total {
		c.Cut("list space cut by deadline")
	}
	// views re-queried after in-place edits of the same list
	editLen := 2
	if c.Thorough() {
		editLen = 3
	}
	etotal, eoffs := powSum(15, 0, editLen)
	var editEvals int64
	edone := par.Range(c.Workers, etotal, 4, stop, func(w int, idx int64) {
		n, rest := decodeLen(idx, 0, eoffs)
		dg := digits(rest, 15, n, nil)
		var msg, sig string
		var k int
		if pn, pv := try(func() { msg, sig, k = c14ListEdited(dg) }); pn {
			msg, sig = fmt.Sprintf("a typed view of the edited list %v panicked: %v", names15(dg), pv), "after-edit/views/panic"
		}
		c.Eval(k)
		atomic.AddInt64(&editEvals, int64(k))
		c.Nontrivial(fmt.Sprint("e", dg))
		if msg != "" {
			dg2 := append([]int{}, dg...)
			c.Violate(ev.Violation{Sig: sig, Msg: msg, Witness: map[string]interface{}{"list": names15(dg2)}}, func() string {
				s := ""
				if pn, _ := try(func() { _, s, _ = c14ListEdited(dg2) }); pn {
					return "after-edit/views/panic"
				}
				return s
			})
		}
	})
	if edone < etotal {
		c.Cut("edited-list space cut by deadline")
	}
	c.Set("views_after_in_place_edits", map[string]interface{}{"start_lists_max_len": editLen, "view_comparisons_after_an_edit": editEvals,
		"rule": "every list of that length over the 15-value alphabet: all views queried, one edit out of Delete(i)/UnsetTF(#i)/Pop/Clear/Reverse/Add(x)/Insert(0,x)/Replace(i,x)/SetTF(#i,x) for every i and x, all views queried again on the same list, then optionally one more removal and a third query"})
	allKeys := []string{"a", "b", "c", "d"}
	for nk := 0; nk <= maxKeys; nk++ {
		// key subsets of size nk (in order), values 13^nk
		var subsets [][]string
		var rec func(from int, cur []string)
		rec = func(from int, cur []string) {
			if len(cur) == nk {
				subsets = append(subsets, append([]string{}, cur...))
				return
			}
			for i := from; i < len(allKeys); i++ {
				rec(i+1, append(cur, allKeys[i]))
			}
		}
		rec(0, nil)
		tot, _ := powSum(15, nk, nk)
		for _, ks := range subsets {
			ks := ks
			par.Range(c.Workers, tot, 512, stop, func(w int, idx int64) {
				dg := digits(idx, 15, nk, nil)
				c.Eval(1)
				if nk >= 2 {
					c.Nontrivial(fmt.Sprint("o", ks, dg))
				}
				if idx%5003 == 3 {
					c.Sample(map[string]interface{}{"container": "object", "keys": ks, "values": names15(dg)})
				}
				var msg, sig string
				if pn, pv := try(func() { msg, sig = c14Object(ks, dg) }); pn {
					msg, sig = fmt.Sprintf("a typed view of an object with keys %v panicked: %v", ks, pv), "views/panic"
				}
				if msg != "" {
					dg2 := append([]int{}, dg...)
					c.Violate(ev.Violation{Sig: sig, Msg: msg, Witness: map[string]interface{}{"keys": ks, "values": names15(dg2)}}, func() string {
						s := ""
						if pn, _ := try(func() { _, s = c14Object(ks, dg2) }); pn {
							return "views/panic"
						}
						return s
					})
				}
			})
		}
	}
}
