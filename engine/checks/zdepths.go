package checks

import (
	"fmt"
	"math"
	"strings"

	at "github.com/DanielSvub/anytype"
	"verif/jsonref"
)

// Depth sweeps. The tree enumerations stop at depth 3-4; code whose behaviour depends on the NESTING DEPTH
// (an indentation buffer of fixed length, a recursion budget, a path splitter with a segment limit) is
// out of their reach. Every property whose statement quantifies over "any depth" therefore also runs its
// oracle on chains nested d levels deep for every d of depthSizes, in two shapes (variant 0: lists in
// lists; variant 1: lists and objects alternating).
var depthSizes = []int{2, 3, 12, 13, 14, 15, 17, 19, 22, 26, 33, 43, 64, 65, 66, 100, 128, 129, 130, 257, 600}

// deepChain builds a chain of d containers (the root is a list) whose innermost container holds leaf.
// It returns the root, the compact JSON text expected from String() when leaf serialises as leafText,
// and the tree-form path of the leaf.
func deepChain(d, variant int, leaf interface{}, leafText string) (at.List, string, string) {
	var inner interface{}
	text := leafText
	path := ""
	for level := d; level >= 1; level-- {
		isObj := variant == 1 && level%2 == 0
		if level == d {
			if isObj {
				inner = at.NewObject("k", leaf)
			} else {
				inner = at.NewList(leaf)
			}
		} else if isObj {
			inner = at.NewObject("k", inner)
		} else {
			inner = at.NewList(inner)
		}
		if isObj {
			text = "{\"k\":" + text + "}"
			path = ".k" + path
		} else {
			text = "[" + text + "]"
			path = "#0" + path
		}
	}
	return inner.(at.List), text, path
}

// innermost walks d-1 levels down through the public getters and returns the innermost container.
func innermost(root at.List, d, variant int) interface{} {
	var cur interface{} = root
	for level := 1; level < d; level++ {
		switch c := cur.(type) {
		case at.List:
			cur = c.Get(0)
		case at.Object:
			cur = c.Get("k")
		}
	}
	return cur
}

// (the file name sorts after sizes.go on purpose: sizes.go's init assigns some of the per-property case lists)
func init() {
	reg := func(prop, name string, run func(d, variant int) string) {
		customSizes[name] = depthSizes
		sweepCases[prop] = append(sweepCases[prop], sweepCase{name, run})
	}
	reg("C01", "round trip of a deeply nested chain", func(d, v int) string {
		l, _, _ := deepChain(d, v, 1.5, "1.5")
		s := l.String()
		p, err := at.ParseList(s)
		if err != nil {
			return "re-parse failed: " + err.Error()
		}
		if !p.Equals(l) || !l.Equals(p) || p.String() != s {
			return "the re-parsed chain does not Equal the original"
		}
		return ""
	})
	reg("C02", "String() of a deeply nested chain for an independent decoder", func(d, v int) string {
		l, _, _ := deepChain(d, v, "x\"y", "")
		s := l.String()
		if !jsonref.Valid(s) {
			return "not valid JSON"
		}
		dec, err := jsonref.Decode(s)
		if err != nil {
			return "decoder error: " + err.Error()
		}
		for level := 1; level <= d; level++ {
			switch c := dec.(type) {
			case []interface{}:
				if len(c) != 1 {
					return fmt.Sprintf("level %d: decoder sees %d elements", level, len(c))
				}
				dec = c[0]
			case map[string]interface{}:
				if len(c) != 1 {
					return fmt.Sprintf("level %d: decoder sees %d fields", level, len(c))
				}
				dec = c["k"]
			default:
				return fmt.Sprintf("level %d: decoder sees %T instead of a container", level, dec)
			}
		}
		if dec != "x\"y" {
			return fmt.Sprintf("the leaf decodes to %v", dec)
		}
		return ""
	})
	reg("C03", "parsing a deeply nested text", func(d, v int) string {
		_, text, path := deepChain(d, v, nil, "null")
		spaced := strings.NewReplacer("[", "[ ", "]", "\n]", "{", "{\t", ":", " : ").Replace(text)
		for _, t := range []string{text, spaced} {
			l, err := at.ParseList(t)
			if err != nil {
				return "rejected: " + err.Error()
			}
			want, _, _ := deepChain(d, v, nil, "null")
			if !l.Equals(want) || l.TypeOfTF(path) != at.TypeNil {
				return "the parsed chain differs from the one built through the API"
			}
		}
		return ""
	})
	reg("C04", "every truncation of a deeply nested document", func(d, v int) string {
		_, text, _ := deepChain(d, v, "s", "\"s\"")
		for cut := 0; cut < len(text); cut++ {
			var l at.List
			var err error
			if pn, pv := try(func() { l, err = at.ParseList(text[:cut]) }); pn {
				return fmt.Sprintf("panic on the prefix of length %d: %v", cut, pv)
			}
			if err == nil || l != nil {
				return fmt.Sprintf("the prefix of length %d of a %d-byte document was accepted", cut, len(text))
			}
		}
		l, err := at.ParseList(text)
		if err != nil || l == nil {
			return "the complete document was rejected"
		}
		return ""
	})
	reg("C07", "deeply nested chains differing only at the bottom", func(d, v int) string {
		a, _, _ := deepChain(d, v, 1, "")
		same, _, _ := deepChain(d, v, 1, "")
		if !a.Equals(same) || !same.Equals(a) {
			return "identical chains are not Equal"
		}
		for _, alt := range []interface{}{1.0, "1", nil, true, at.NewList(), at.NewObject(), at.NewList(1)} {
			b, _, _ := deepChain(d, v, alt, "")
			if a.Equals(b) || b.Equals(a) {
				return fmt.Sprintf("chains whose leaves are 1 and %T(%v) are reported Equal", alt, alt)
			}
		}
		e1, _, _ := deepChain(d, v, at.NewList(), "")
		e2, _, _ := deepChain(d, v, at.NewObject(), "")
		if e1.Equals(e2) || e2.Equals(e1) {
			return "an empty list and an empty object at the bottom are reported Equal"
		}
		return ""
	})
	reg("C08", "Clone of a deeply nested chain", func(d, v int) string {
		l, _, path := deepChain(d, v, 1, "")
		c := l.Clone()
		if !c.Equals(l) || !l.Equals(c) {
			return "the clone does not Equal its source"
		}
		var x, y interface{} = l, c
		for level := 1; level <= d; level++ {
			if x == y {
				return fmt.Sprintf("level %d: the clone holds the source's own container", level)
			}
			if level == d {
				break
			}
			switch cx := x.(type) {
			case at.List:
				x, y = cx.Get(0), y.(at.List).Get(0)
			case at.Object:
				x, y = cx.Get("k"), y.(at.Object).Get("k")
			}
		}
		c.SetTF(path, "changed")
		if l.GetTF(path) != 1 {
			return "a write at the bottom of the clone shows in the source"
		}
		l.SetTF(path, 2)
		if c.GetTF(path) != "changed" {
			return "a write at the bottom of the source shows in the clone"
		}
		return ""
	})
	reg("C10", "tree-form reads along a very long path", func(d, v int) string {
		l, _, path := deepChain(d, v, "leaf", "")
		if got := l.GetTF(path); got != "leaf" {
			return fmt.Sprintf("GetTF along %d segments returned %v", d, got)
		}
		if l.TypeOfTF(path) != at.TypeString {
			return "TypeOfTF along the path is not string"
		}
		in := innermost(l, d, v)
		cut := strings.LastIndexAny(path, "#.")
		if got := l.GetTF(path[:cut]); got != in {
			return "GetTF of the parent path does not return the identical innermost container"
		}
		for _, bad := range []string{path[:cut] + "#1", path[:cut] + ".q", path + "#0", path + ".k"} {
			var ty at.Type
			if pn, pv := try(func() { ty = l.TypeOfTF(bad) }); pn {
				return fmt.Sprintf("TypeOfTF panicked on an unresolvable long path: %v", pv)
			}
			if ty != at.TypeUndefined {
				return "TypeOfTF of an unresolvable long path is not TypeUndefined"
			}
			if pn, _ := try(func() { l.GetTF(bad) }); !pn {
				return "GetTF of an unresolvable long path did not panic"
			}
		}
		return ""
	})
	reg("C11", "tree-form writes along a very long path", func(d, v int) string {
		want, _, path := deepChain(d, v, 7, "7")
		l := at.NewList()
		l.SetTF(path, 7)
		if !l.Equals(want) || !want.Equals(l) {
			return "SetTF along a new long path did not create exactly the chain"
		}
		keep := innermost(l, d, v)
		l.SetTF(path, "again")
		if l.GetTF(path) != "again" || innermost(l, d, v) != keep {
			return "a second SetTF along the existing path did not reuse the intermediates"
		}
		l.UnsetTF(path)
		switch c := innermost(l, d, v).(type) {
		case at.List:
			if c.Count() != 0 || c != keep {
				return "UnsetTF along the path did not empty exactly the innermost list"
			}
		case at.Object:
			if c.Count() != 0 || c != keep {
				return "UnsetTF along the path did not empty exactly the innermost object"
			}
		default:
			return "the innermost container disappeared"
		}
		return ""
	})
	reg("C13", "native export of a deeply nested chain", func(d, v int) string {
		l, _, _ := deepChain(d, v, 2.5, "")
		var cur interface{} = l.NativeSlice()
		for level := 1; level <= d; level++ {
			switch c := cur.(type) {
			case []interface{}:
				if len(c) != 1 {
					return fmt.Sprintf("level %d: %d elements", level, len(c))
				}
				cur = c[0]
			case map[string]interface{}:
				cur = c["k"]
			default:
				return fmt.Sprintf("level %d of the native value is %T (a container of the library, or a lost level)", level, cur)
			}
		}
		if cur != 2.5 {
			return fmt.Sprintf("the leaf is %v", cur)
		}
		if back := at.NewListFrom(l.NativeSlice()); !back.Equals(l) {
			return "NewListFrom(NativeSlice()) does not Equal the source"
		}
		return ""
	})
	reg("C16", "FormatString of a deeply nested chain at every indent", func(d, v int) string {
		l, _, _ := deepChain(d, v, "s", "\"s\"")
		for ind := 0; ind <= 10; ind++ {
			var out string
			if pn, pv := try(func() { out = l.FormatString(ind) }); pn {
				return fmt.Sprintf("FormatString(%d) panicked: %v", ind, pv)
			}
			if out == "" || !jsonref.Valid(out) {
				return fmt.Sprintf("FormatString(%d) is empty or not valid JSON", ind)
			}
			canon, ok := jsonref.Reindent(out, ind)
			if !ok || canon != out {
				return fmt.Sprintf("FormatString(%d) is not canonically laid out", ind)
			}
			if p, err := at.ParseList(out); err != nil || !p.Equals(l) {
				return fmt.Sprintf("FormatString(%d) does not denote the chain", ind)
			}
		}
		for _, ind := range []int{-1, 11} {
			if pn, _ := try(func() { l.FormatString(ind) }); !pn {
				return fmt.Sprintf("FormatString(%d) did not panic", ind)
			}
		}
		return ""
	})
	customSizes["indents far outside 0..10"] = []int{2}
	sweepCases["C16"] = append(sweepCases["C16"], sweepCase{"indents far outside 0..10", func(_, variant int) string {
		// every indent outside 0..10 panics - also those that alias a valid one in a narrower integer type
		bad := []int{11, 12, 13, 100, 127, 128, 245, 246, 255, 256, 257, 260, 266, 267, 511, 512, 522, 523, 1024, 32767, 32768, 65535, 65536, 65546,
			-1, -2, -10, -11, -245, -246, -250, -255, -256, -257, -512, -65536, -65535, math.MaxInt, math.MinInt, math.MaxInt32, math.MinInt32, math.MaxInt32 + 1}
		var target interface{ FormatString(int) string } = at.NewList(1, at.NewObject("k", "v"))
		if variant == 1 {
			target = at.NewObject("k", at.NewList(1, "v"))
		}
		for _, ind := range bad {
			var out string
			if pn, _ := try(func() { out = target.FormatString(ind) }); !pn {
				return fmt.Sprintf("FormatString(%d) did not panic (returned %d bytes)", ind, len(out))
			}
		}
		for ind := 0; ind <= 10; ind++ {
			if pn, pv := try(func() { target.FormatString(ind) }); pn {
				return fmt.Sprintf("FormatString(%d) panicked: %v", ind, pv)
			}
		}
		return ""
	}})
	reg("C20", "error line at the bottom of a deeply nested document", func(d, v int) string {
		_, text, _ := deepChain(d, v, 1, "1")
		// one line per opener; the innermost value is followed by an unexpected character on its own line
		open := text[:strings.Index(text, "1")]
		var sb strings.Builder
		for i := 0; i < len(open); i++ {
			sb.WriteByte(open[i])
			if open[i] == '[' || open[i] == '{' {
				sb.WriteByte('\n')
			}
		}
		sb.WriteString("1\n\n?")
		doc := sb.String() + text[len(open)+1:]
		want := 1 + strings.Count(sb.String()[:sb.Len()-1], "\n")
		_, err := at.ParseList(doc)
		if err == nil {
			return ""
		}
		m := lineRe.FindStringSubmatch(err.Error())
		if m == nil {
			return ""
		}
		if m[1] != fmt.Sprint(want) {
			return fmt.Sprintf("error %q cites line %s, the unexpected character is on line %d", err.Error(), m[1], want)
		}
		return ""
	})
}
