package checks

import (
	at "github.com/DanielSvub/anytype"

	"verif/spec"
)

// Serialisation after NESTED edits (seeded change C01-10a: an object memoises its text and only its own
// mutators invalidate the memo). For every container strictly below the root of v: build the tree, run the
// pass once (this serialises every level), modify that nested container through its own handle, and run the
// pass again against the edited specification.

type nstep struct {
	idx int
	key string
	obj bool
}

func nestedPaths(v *spec.V, cur []nstep, out *[][]nstep) {
	add := func(s nstep, ch *spec.V) {
		if !ch.IsContainer() {
			return
		}
		p := append(append([]nstep{}, cur...), s)
		*out = append(*out, p)
		nestedPaths(ch, p, out)
	}
	switch v.K {
	case spec.Lst:
		for i, e := range v.L {
			add(nstep{idx: i}, e)
		}
	case spec.Obj:
		for _, kv := range v.KV {
			add(nstep{key: kv.K, obj: true}, kv.V)
		}
	}
}

func specEdit(v *spec.V, p []nstep, f func(*spec.V) *spec.V) *spec.V {
	if len(p) == 0 {
		return f(v)
	}
	if v.K == spec.Lst {
		l := append([]*spec.V{}, v.L...)
		l[p[0].idx] = specEdit(l[p[0].idx], p[1:], f)
		return spec.L(l...)
	}
	kv := append([]spec.KV{}, v.KV...)
	for i := range kv {
		if kv[i].K == p[0].key {
			kv[i] = spec.P(kv[i].K, specEdit(kv[i].V, p[1:], f))
		}
	}
	return spec.O(kv...)
}

func realAt(c interface{}, p []nstep) interface{} {
	for _, s := range p {
		if s.obj {
			c = c.(at.Object).Get(s.key)
		} else {
			c = c.(at.List).Get(s.idx)
		}
	}
	return c
}

const nestedEditKey = "zz"

func afterNestedEdits(v *spec.V, pass func(*spec.V, interface{}) (string, string)) (msg, stage string) {
	if v.Depth() < 2 || v.Nodes() > 6 {
		return "", ""
	}
	var paths [][]nstep
	nestedPaths(v, nil, &paths)
	for _, p := range paths {
		c := v.Build()
		if m, _ := pass(v, c); m != "" {
			return "", "" // reported by the plain case already
		}
		var v2 *spec.V
		var target interface{}
		if pn, _ := try(func() { target = realAt(c, p) }); pn {
			return "", ""
		}
		pn, _ := try(func() {
			switch t := target.(type) {
			case at.List:
				t.Add(9)
				v2 = specEdit(v, p, func(n *spec.V) *spec.V { return spec.L(append(append([]*spec.V{}, n.L...), spec.I(9))...) })
			case at.Object:
				t.Set(nestedEditKey, 9)
				v2 = specEdit(v, p, func(n *spec.V) *spec.V {
					return spec.O(append(append([]spec.KV{}, n.KV...), spec.P(nestedEditKey, spec.I(9)))...)
				})
			}
		})
		if pn || v2 == nil {
			return "", "" // mutators are judged by C05/C06
		}
		if m, st := pass(v2, c); m != "" {
			return "after a nested container was modified through its own handle (the tree had been serialised before): " + m, "nested-edit/" + st
		}
	}
	return "", ""
}
