package checks

import (
	"fmt"
	"math"
	"math/big"

	at "github.com/DanielSvub/anytype"
	"verif/ev"
	"verif/par"
)

func init() { register("C18", "exploration", runC18) }

var c18Num = []interface{}{math.MinInt, -3, -1, 0, 1, 2, math.MaxInt, -2.5, -0.5, 0.0, 0.5, 1.5, 3.0}

func c18Others() []interface{} {
	return []interface{}{math.MinInt, -3, -1, 0, 1, 2, math.MaxInt, "s", nil, true, 1.5, at.NewList(5)}
}

var c18OtherNames = []string{"MinInt", "-3", "-1", "0", "1", "2", "MaxInt", `"s"`, "nil", "true", "1.5", "L[5]"}

func asFloat(v interface{}) float64 {
	if i, ok := v.(int); ok {
		return float64(i)
	}
	return v.(float64)
}

func ratOf(f float64) *big.Rat { r := new(big.Rat); r.SetFloat64(f); return r }

// c18Float checks Sum/Prod/Min/Max/Avg on an all-numeric list.
func c18Float(vals []interface{}, h int) (msg, sig string) {
	var l at.List
	if len(vals) == 0 {
		l = at.NewList()
	} else {
		l = buildHist(h, vals, 99)
	}
	before := snapList(l)
	n := len(vals)
	sum, prod, absSum := new(big.Rat), big.NewRat(1, 1), new(big.Rat)
	minV, maxV := math.Inf(1), math.Inf(-1)
	extreme := false
	for _, v := range vals {
		f := asFloat(v)
		sum.Add(sum, ratOf(f))
		prod.Mul(prod, ratOf(f))
		absSum.Add(absSum, ratOf(math.Abs(f)))
		if f < minV {
			minV = f
		}
		if f > maxV {
			maxV = f
		}
		if i, ok := v.(int); ok && (i == math.MaxInt || i == math.MinInt) {
			extreme = true
		}
	}
	if n == 0 {
		minV, maxV = 0, 0
	}
	// tolerance: 0 when every partial result is exactly representable (small dyadic alphabet),
	// otherwise the standard (n-1)*eps*sum|x| bound that every summation order satisfies
	tol := new(big.Rat)
	if extreme {
		tol.Mul(absSum, big.NewRat(int64(n), 1<<52))
	}
	within := func(got float64, want *big.Rat, tol *big.Rat) bool {
		if math.IsNaN(got) || math.IsInf(got, 0) {
			return false
		}
		d := new(big.Rat).Sub(ratOf(got), want)
		d.Abs(d)
		if tol.Sign() == 0 {
			wf, exact := want.Float64()
			if exact {
				return got == wf
			}
			return got == wf // correctly rounded
		}
		return d.Cmp(tol) <= 0
	}
	var got float64
	call := func(name string, f func() float64) (bool, string) {
		if p, v := try(func() { got = f() }); p {
			return false, fmt.Sprintf("%s panicked on %s: %v", name, showSeq(vals), v)
		}
		return true, ""
	}
	if ok, m := call("Sum", l.Sum); !ok {
		return m, "agg/Sum/panic"
	}
	if !within(got, sum, tol) {
		return fmt.Sprintf("Sum(%s) = %v, exact sum of the elements as float64 is %s", showSeq(vals), got, sum.FloatString(3)), "agg/Sum"
	}
	if ok, m := call("Prod", l.Prod); !ok {
		return m, "agg/Prod/panic"
	}
	if !within(got, prod, new(big.Rat)) {
		return fmt.Sprintf("Prod(%s) = %v, exact product is %s", showSeq(vals), got, prod.FloatString(3)), "agg/Prod"
	}
	if ok, m := call("Min", l.Min); !ok {
		return m, "agg/Min/panic"
	}
	if got != minV {
		return fmt.Sprintf("Min(%s) = %v, want %v", showSeq(vals), got, minV), "agg/Min"
	}
	if ok, m := call("Max", l.Max); !ok {
		return m, "agg/Max/panic"
	}
	if got != maxV {
		return fmt.Sprintf("Max(%s) = %v, want %v", showSeq(vals), got, maxV), "agg/Max"
	}
	if n > 0 {
		if ok, m := call("Avg", l.Avg); !ok {
			return m, "agg/Avg/panic"
		}
		mean := new(big.Rat).Quo(sum, big.NewRat(int64(n), 1))
		mt := new(big.Rat).Quo(tol, big.NewRat(int64(n), 1))
		if extreme {
			// one more rounding for the division
			mt.Add(mt, new(big.Rat).Mul(new(big.Rat).Abs(mean), big.NewRat(1, 1<<52)))
		}
		if !within(got, mean, mt) {
			return fmt.Sprintf("Avg(%s) = %v, exact mean is %s", showSeq(vals), got, mean.FloatString(6)), "agg/Avg"
		}
	}
	if !sameSeq(snapList(l), before) {
		return fmt.Sprintf("an aggregate modified the list %s -> %s", showSeq(before), showSeq(snapList(l))), "agg/modified"
	}
	return "", ""
}

// c18Int checks IntSum/IntProd/IntMin/IntMax on any list.
func c18Int(dg []int, h int) (msg, sig string) {
	alpha := c18Others()
	vals := make([]interface{}, len(dg))
	for i, d := range dg {
		vals[i] = alpha[d]
	}
	var l at.List
	if len(vals) == 0 {
		l = at.NewList()
	} else {
		l = buildHist(h, vals, 99)
	}
	before := snapList(l)
	s, p, mn, mx, any := 0, 1, 0, 0, false
	for _, v := range vals {
		if i, ok := v.(int); ok {
			s += i
			p *= i
			if !any || i < mn {
				mn = i
			}
			if !any || i > mx {
				mx = i
			}
			any = true
		}
	}
	names := make([]string, len(dg))
	for i, d := range dg {
		names[i] = c18OtherNames[d]
	}
	for _, t := range []struct {
		name string
		f    func() int
		want int
	}{{"IntSum", l.IntSum, s}, {"IntProd", l.IntProd, p}, {"IntMin", l.IntMin, mn}, {"IntMax", l.IntMax, mx}} {
		var got int
		if pn, v := try(func() { got = t.f() }); pn {
			return fmt.Sprintf("%s panicked on %v: %v", t.name, names, v), "agg/" + t.name + "/panic"
		}
		if got != t.want {
			return fmt.Sprintf("%s(%v) = %d, want %d (fold over exactly the int elements)", t.name, names, got, t.want), "agg/" + t.name
		}
	}
	if !sameSeq(snapList(l), before) {
		return fmt.Sprintf("an Int aggregate modified the list %v", names), "agg/modified"
	}
	return "", ""
}

func runC18(c *ev.Ctx) {
	defer sizeSweep(c, "C18")
	maxLen := 5
	if c.Thorough() {
		maxLen = 6
	}
	c.Rule(fmt.Sprintf("Sum/Prod/Min/Max/Avg: every list of length 0..%d over 7 ints {MinInt,-3,-1,0,1,2,MaxInt} and 6 dyadic floats {-2.5,-0.5,0,0.5,1.5,3}; IntSum/IntProd/IntMin/IntMax: every list of length 0..%d over the same ints interleaved with {\"s\",nil,true,1.5,a list}; each through 3 construction histories (plain, spare capacity, equal elements sharing one field object). Min/Max additionally on every list of length 1..3 over 15 extreme magnitudes (+-MaxFloat64, +-1e300, around +-MaxFloat32, subnormals, MinInt, MaxInt). Oracle: exact rational folds (math/big), exact equality whenever the exact result is representable, the (n-1)-ulp summation bound only when MaxInt/MinInt take part. Non-trivial = distinct list of length >= 2.", maxLen, maxLen))
	c.Assume("Avg of the empty list is unspecified by the statement and not checked", "Go's float64 arithmetic is IEEE-754 round-to-nearest-even")
	stop := func() bool { return c.Expired() || c.TooMany() }
	total, offs := powSum(len(c18Num), 0, maxLen)
	done := par.Range(c.Workers, total*3, 2048, stop, func(w int, idx int64) {
		h := []int{0, 2, 6}[idx%3] // construction histories: plain, spare capacity, shared field objects
		idx /= 3
		n, rest := decodeLen(idx, 0, offs)
		dg := digits(rest, len(c18Num), n, nil)
		vals := make([]interface{}, n)
		for i, d := range dg {
			vals[i] = c18Num[d]
		}
		c.Eval(1)
		if n >= 2 {
			c.Nontrivial("f" + fmt.Sprint(dg))
		}
		if idx%30011 == 5 {
			c.Sample(map[string]interface{}{"family": "Sum/Prod/Min/Max/Avg", "list": showSeq(vals)})
		}
		if msg, sig := c18Float(vals, h); msg != "" {
			c.Violate(ev.Violation{Sig: sig, Msg: msg, Witness: map[string]interface{}{"list": seqStrings(vals)}}, func() string { _, s := c18Float(vals, h); return s })
		}
	})
	if done < total*3 {
		c.Cut("float family cut by deadline")
	}
	na := len(c18OtherNames)
	total2, offs2 := powSum(na, 0, maxLen)
	done = par.Range(c.Workers, total2*3, 2048, stop, func(w int, idx int64) {
		h := []int{0, 2, 6}[idx%3]
		idx /= 3
		n, rest := decodeLen(idx, 0, offs2)
		dg := digits(rest, na, n, nil)
		c.Eval(1)
		if n >= 2 {
			c.Nontrivial("i" + fmt.Sprint(dg))
		}
		if idx%30011 == 5 {
			nm := make([]string, n)
			for i, d := range dg {
				nm[i] = c18OtherNames[d]
			}
			c.Sample(map[string]interface{}{"family": "IntSum/IntProd/IntMin/IntMax", "list": nm})
		}
		if msg, sig := c18Int(dg, h); msg != "" {
			dg2 := append([]int{}, dg...)
			c.Violate(ev.Violation{Sig: sig, Msg: msg, Witness: map[string]interface{}{"list_indices": dg2}}, func() string { _, s := c18Int(dg2, h); return s })
		}
	})
	if done < total2*3 {
		c.Cut("int family cut by deadline")
	}
	// Min/Max over extreme magnitudes (every list of length 1..3): the start value of a fold must not win
	{
		ext := []interface{}{-math.MaxFloat64, -1e300, -2 * math.MaxFloat32, -1e39, -math.MaxFloat32, -5e-324, 5e-324, math.MaxFloat32, 1e39, 1e300, math.MaxFloat64, math.MinInt, math.MaxInt, -1.5, 0.0}
		total, offs := powSum(len(ext), 1, 3)
		for idx := int64(0); idx < total; idx++ {
			n, rest := decodeLen(idx, 1, offs)
			dg := digits(rest, len(ext), n, nil)
			vals := make([]interface{}, n)
			mn, mx := math.Inf(1), math.Inf(-1)
			for i, d := range dg {
				vals[i] = ext[d]
				f, ok := ext[d].(float64)
				if !ok {
					f = float64(ext[d].(int))
				}
				mn, mx = math.Min(mn, f), math.Max(mx, f)
			}
			c.Eval(1)
			c.Nontrivial("extremes/" + showSeq(vals))
			l := at.NewList(vals...)
			var gmn, gmx float64
			pn, pv := try(func() { gmn, gmx = l.Min(), l.Max() })
			if pn || gmn != mn || gmx != mx {
				vals := vals
				c.Violate(ev.Violation{Sig: "agg/extremes", Msg: fmt.Sprintf("Min/Max of %s = %v/%v (panic %v %v), want %v/%v", showSeq(vals), gmn, gmx, pn, pv, mn, mx), Witness: map[string]interface{}{"list": showSeq(vals)}}, func() string {
					a, b := 0.0, 0.0
					if p, _ := try(func() { l2 := at.NewList(vals...); a, b = l2.Min(), l2.Max() }); p || a != mn || b != mx {
						return "agg/extremes"
					}
					return ""
				})
			}
		}
	}
	if !c.Expired() {
		d := 5
		if c.Thorough() {
			d = 6
		}
		r := focusedListHistories(c, "aggregates within list histories", "aggregates", []interface{}{1, 2, 0.5}, d, nil)
		c.Set("history_subspace", map[string]interface{}{"states": r.States, "depth": r.DepthCompleted, "transitions": c.Trans(),
			"note": "operation alphabet of C05 plus an optional 'call every observer' operation; all nine aggregates are compared with the reference folds after every transition (memoised results must be invalidated by every mutation)"})
		c.Eval(int(c.Trans()))
	}
}
