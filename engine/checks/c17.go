package checks

import (
	"fmt"
	"math"
	"sort"

	at "github.com/DanielSvub/anytype"
	"verif/ev"
	"verif/par"
)

func init() { register("C17", "exploration", runC17) }

// k13 returns a fresh instance of the 13-value kinds alphabet (containers are new per call).
func k13() []interface{} {
	return []interface{}{nil, true, false, 1, 2, 1.0, 2.5, "a", "1",
		at.NewList(1), at.NewList(), at.NewObject("k", 1), at.NewObject()}
}

var k13Names = []string{"nil", "true", "false", "1", "2", "1.0", "2.5", `"a"`, `"1"`, "L[1]", "L[]", `O{k:1}`, "O{}"}

const c17Histories = 8
const c17Aliases = 3

var c17HistNames = []string{"NewList(v...)", "NewList()+Add each", "NewList(v...,x,x)+Pop+Pop", "NewList(x,v...)+Delete(0)", "NewListOf(nil,n)+Replace each", "NewListFrom([]any)", "runs of equal values by NewListOf(v,k), joined by Concat", "SubList(0,0) of (runs by NewListOf joined by Concat)"}
var c17AliasNames = []string{"direct handle", "via parent list Get", "via parent object Get"}

// buildHist builds a list holding vals through one of several histories (different private capacity).
func buildHist(h int, vals []interface{}, extra interface{}) at.List {
	switch h {
	case 0:
		return at.NewList(vals...)
	case 1:
		l := at.NewList()
		for _, v := range vals {
			l.Add(v)
		}
		return l
	case 2:
		l := at.NewList(vals...)
		l.Add(extra, extra)
		l.Pop()
		l.Pop()
		return l
	case 3:
		l := at.NewList(extra)
		l.Add(vals...)
		l.Delete(0)
		return l
	case 4:
		l := at.NewListOf(nil, len(vals))
		for i, v := range vals {
			l.Replace(i, v)
		}
		return l
	case 5:
		return at.NewListFrom(append([]interface{}{}, vals...))
	default:
		// maximal runs of identical consecutive values are built by NewListOf (one shared field per run)
		l := at.NewList()
		for i := 0; i < len(vals); {
			j := i
			for j < len(vals) && sameVal(vals[j], vals[i]) {
				j++
			}
			l = l.Concat(at.NewListOf(vals[i], j-i))
			i = j
		}
		if h == 7 {
			return l.SubList(0, 0)
		}
		return l
	}
}

type c17Wit struct {
	Op      string   `json:"op"`
	Values  []string `json:"values"`
	History string   `json:"history"`
	Alias   string   `json:"alias"`
}

func runC17(c *ev.Ctx) {
	defer sizeSweep(c, "C17")
	maxSort, maxRev, maxPanic := 5, 4, 3
	if c.Thorough() {
		maxSort, maxRev, maxPanic = 6, 5, 4
	}
	ints := []interface{}{math.MinInt, -1, 0, 1, 2, math.MaxInt}
	// neighbours that are distinct as int but equal after conversion to float64 (|x| > 2^53)
	bigInts := []interface{}{math.MinInt, math.MinInt + 1, -(1 << 53) - 1, -(1 << 53), 0, 1 << 53, 1<<53 + 1, math.MaxInt - 1, math.MaxInt}
	floats := []interface{}{math.Inf(-1), -math.MaxFloat64, -1.5, math.Copysign(0, -1), 0.0, 5e-324, 1.0, 1.5, math.Inf(1)}
	strs := []interface{}{"", "a", "b", "ab", "B", "é", "a\x00", "\U0010FFFF"}
	c.Rule("Sort: every list of length 1.." + fmt.Sprint(maxSort) + " over 6 ints / 9 non-NaN floats / 8 strings (and length 1..4 over 9 ints that are pairwise neighbours above 2^53 in magnitude) x 6 construction histories (different private len/cap) x 3 alias routes; Reverse: every list of length 0.." + fmt.Sprint(maxRev) + " over the 13-value kinds alphabet x histories; Sort-panic: every list of length 1.." + fmt.Sprint(maxPanic) + " whose first element is nil/bool/list/object. A case is non-trivial (and counted once per distinct input sequence+operation) when the operation has to move at least one element (input not already in the target order) or must panic.")
	c.Assume("floats compared by bit pattern for the multiset, by == for order", "strings ordered bytewise (Go string comparison)", "NaN, empty lists and mixed-kind lists are outside the property's Sort domain and not generated")

	// ---- Sort ----
	for ai, alpha := range [][]interface{}{ints, floats, strs, bigInts} {
		alpha := alpha
		kind := []string{"int", "float", "string", "int"}[ai]
		maxSort := maxSort
		if ai == 3 {
			maxSort = 4
		}
		total, offs := powSum(len(alpha), 1, maxSort)
		total *= c17Histories * c17Aliases
		done := par.Range(c.Workers, total, 4096, func() bool { return c.Expired() || c.TooMany() }, func(w int, idx int64) {
			h := int(idx % c17Histories)
			idx /= c17Histories
			al := int(idx % c17Aliases)
			idx /= c17Aliases
			n, rest := decodeLen(idx, 1, offs)
			dg := digits(rest, len(alpha), n, make([]int, 0, 8))
			vals := make([]interface{}, n)
			for i, d := range dg {
				vals[i] = alpha[d]
			}
			c.Eval(1)
			msg, sig := c17Sort(kind, vals, h, al)
			if !sortedSeq(vals) {
				c.Nontrivial("sort/" + kind + "/" + showSeq(vals))
			}
			if idx%200003 == 0 && h == 2 {
				c.Sample(map[string]interface{}{"op": "Sort", "values": showSeq(vals), "history": c17HistNames[h], "alias": c17AliasNames[al]})
			}
			if msg != "" {
				wit := c17Wit{"Sort", seqStrings(vals), c17HistNames[h], c17AliasNames[al]}
				c.Violate(ev.Violation{Sig: sig, Msg: msg, Witness: wit}, func() string { _, s := c17Sort(kind, vals, h, al); return s })
			}
		})
		if done < total {
			c.Cut(fmt.Sprintf("Sort/%s: %d of %d cases", kind, done, total))
		}
	}

	// ---- Reverse ----
	{
		total, offs := powSum(13, 0, maxRev)
		total *= c17Histories
		done := par.Range(c.Workers, total, 4096, func() bool { return c.Expired() || c.TooMany() }, func(w int, idx int64) {
			h := int(idx % c17Histories)
			idx /= c17Histories
			n, rest := decodeLen(idx, 0, offs)
			dg := digits(rest, 13, n, make([]int, 0, 8))
			c.Eval(1)
			msg, sig := c17Reverse(dg, h)
			if n >= 2 {
				c.Nontrivial(fmt.Sprint("rev/", dg))
			}
			if idx%100003 == 0 && h == 3 {
				c.Sample(map[string]interface{}{"op": "Reverse", "values": namesOf(dg), "history": c17HistNames[h]})
			}
			if msg != "" {
				wit := c17Wit{"Reverse", namesOf(dg), c17HistNames[h], ""}
				dg2 := append([]int{}, dg...)
				c.Violate(ev.Violation{Sig: sig, Msg: msg, Witness: wit}, func() string { _, s := c17Reverse(dg2, h); return s })
			}
		})
		if done < total {
			c.Cut(fmt.Sprintf("Reverse: %d of %d cases", done, total))
		}
	}

	// ---- Sort must panic and leave the list unchanged ----
	{
		total, offs := powSum(13, 1, maxPanic)
		total *= c17Histories
		done := par.Range(c.Workers, total, 4096, func() bool { return c.Expired() || c.TooMany() }, func(w int, idx int64) {
			h := int(idx % c17Histories)
			idx /= c17Histories
			n, rest := decodeLen(idx, 1, offs)
			dg := digits(rest, 13, n, make([]int, 0, 8))
			first := dg[0]
			if first >= 3 && first <= 8 { // int, float or string first: inside the Sort domain only when homogeneous; skipped here
				return
			}
			c.Eval(1)
			c.Nontrivial(fmt.Sprint("sortpanic/", dg))
			msg, sig := c17SortPanic(dg, h)
			if idx%50021 == 0 {
				c.Sample(map[string]interface{}{"op": "Sort (must panic)", "values": namesOf(dg), "history": c17HistNames[h]})
			}
			if msg != "" {
				wit := c17Wit{"Sort-panic", namesOf(dg), c17HistNames[h], ""}
				dg2 := append([]int{}, dg...)
				c.Violate(ev.Violation{Sig: sig, Msg: msg, Witness: wit}, func() string { _, s := c17SortPanic(dg2, h); return s })
			}
		})
		if done < total {
			c.Cut(fmt.Sprintf("Sort-panic: %d of %d cases", done, total))
		}
	}
	if !c.Expired() {
		c17HistoriesRun(c)
	}
}

// c17Histories: Sort inside operation histories (Sort, then Insert/Replace/Reverse/..., then Sort again ...).
func c17HistoriesRun(c *ev.Ctx) {
	d := 5
	if c.Thorough() {
		d = 6
	}
	r1 := focusedListHistories(c, "Sort within list histories (ints)", "core", []interface{}{1, 2, 3}, d, anySorted)
	r2 := focusedListHistories(c, "Sort within list histories (strings)", "core", []interface{}{"a", "b"}, d, anySorted)
	c.Set("history_subspace", map[string]interface{}{"int_states": r1.States, "string_states": r2.States, "depth": r1.DepthCompleted, "transitions": c.Trans(),
		"note": "operation alphabet of C05 (incl. Sort, Insert, Replace, Reverse, Delete, SubList, Concat and an optional observer call); a state is judged once some list in it has been sorted"})
	c.Eval(int(c.Trans()))
}

func namesOf(dg []int) []string {
	out := make([]string, len(dg))
	for i, d := range dg {
		out[i] = k13Names[d]
	}
	return out
}

func seqStrings(v []interface{}) []string {
	out := make([]string, len(v))
	for i, x := range v {
		out[i] = show(x)
	}
	return out
}

func lessEq(a, b interface{}) bool {
	switch x := a.(type) {
	case int:
		return x <= b.(int)
	case float64:
		return x <= b.(float64)
	case string:
		return x <= b.(string)
	}
	return false
}

func sortedSeq(v []interface{}) bool {
	for i := 1; i < len(v); i++ {
		if !lessEq(v[i-1], v[i]) {
			return false
		}
	}
	return true
}

func multisetKey(v []interface{}) string {
	ks := make([]string, len(v))
	for i, x := range v {
		if f, ok := x.(float64); ok {
			ks[i] = fmt.Sprintf("f%016x", math.Float64bits(f))
		} else {
			ks[i] = fmt.Sprintf("%T:%q", x, fmt.Sprint(x))
		}
	}
	sort.Strings(ks)
	return fmt.Sprint(ks)
}

func c17Sort(kind string, vals []interface{}, h, al int) (msg, sig string) {
	pfx := "sort-" + kind + "/"
	l := buildHist(h, vals, vals[0])
	parent := at.NewList(l)
	pobj := at.NewObject("k", l)
	before := snapList(l)
	if !sameSeq(before, vals) {
		return fmt.Sprintf("history %q did not build %s but %s", c17HistNames[h], showSeq(vals), showSeq(before)), pfx + "build"
	}
	target := l
	switch al {
	case 1:
		target = parent.GetList(0)
	case 2:
		target = pobj.GetList("k")
	}
	var ret at.List
	if p, v := try(func() { ret = target.Sort() }); p {
		return fmt.Sprintf("Sort panicked on %s (%s): %v", showSeq(vals), c17HistNames[h], v), pfx + "panic"
	}
	if ret != l {
		return fmt.Sprintf("Sort on %s returned a different handle than the receiver", showSeq(vals)), pfx + "handle"
	}
	views := []at.List{l, parent.GetList(0), pobj.GetList("k")}
	for vi, name := range []string{"receiver", "parent list element", "parent object field"} {
		view := views[vi]
		if view != l {
			return fmt.Sprintf("after Sort the %s is no longer the identical list", name), pfx + "alias-identity"
		}
		after := snapList(view)
		if len(after) != len(vals) {
			return fmt.Sprintf("Sort(%s) [%s] changed the length: %s (seen through %s)", showSeq(vals), c17HistNames[h], showSeq(after), name), pfx + "length"
		}
		if multisetKey(after) != multisetKey(vals) {
			return fmt.Sprintf("Sort(%s) [%s] is not a permutation: %s (seen through %s)", showSeq(vals), c17HistNames[h], showSeq(after), name), pfx + "multiset"
		}
		if !sortedSeq(after) {
			return fmt.Sprintf("Sort(%s) [%s] not non-decreasing: %s (seen through %s)", showSeq(vals), c17HistNames[h], showSeq(after), name), pfx + "order"
		}
		for i := range after {
			if view.TypeOf(i) != map[string]at.Type{"int": at.TypeInt, "float": at.TypeFloat, "string": at.TypeString}[kind] {
				return fmt.Sprintf("Sort(%s) changed the kind at %d", showSeq(vals), i), pfx + "kind"
			}
		}
	}
	once := snapList(l)
	l.Sort()
	twice := snapList(l)
	if len(once) != len(twice) {
		return fmt.Sprintf("second Sort changed the length of %s", showSeq(once)), pfx + "idempotent"
	}
	for i := range once {
		if once[i] != twice[i] {
			return fmt.Sprintf("second Sort changed %s into %s", showSeq(once), showSeq(twice)), pfx + "idempotent"
		}
	}
	// the list must stay fully usable after Sort (it was rearranged in place, not detached)
	l.Add(vals[0])
	if parent.GetList(0).Count() != len(vals)+1 {
		return fmt.Sprintf("after Sort an Add through the original handle is not visible through the parent (%s)", showSeq(vals)), pfx + "detached"
	}
	return "", ""
}

func c17Reverse(dg []int, h int) (msg, sig string) {
	alpha := k13()
	vals := make([]interface{}, len(dg))
	for i, d := range dg {
		vals[i] = alpha[d]
	}
	l := buildHist(h, vals, 7)
	parent := at.NewList(l)
	before := snapList(l)
	if !sameSeq(before, vals) {
		return fmt.Sprintf("history %q did not build %v", c17HistNames[h], namesOf(dg)), "reverse/build"
	}
	var ret at.List
	if p, v := try(func() { ret = l.Reverse() }); p {
		return fmt.Sprintf("Reverse panicked on %v: %v", namesOf(dg), v), "reverse/panic"
	}
	if ret != l || parent.GetList(0) != l {
		return fmt.Sprintf("Reverse on %v returned/left a different handle", namesOf(dg)), "reverse/handle"
	}
	after := snapList(parent.GetList(0))
	n := len(vals)
	if len(after) != n {
		return fmt.Sprintf("Reverse changed length of %v to %d", namesOf(dg), len(after)), "reverse/length"
	}
	for i := 0; i < n; i++ {
		if !sameVal(after[n-1-i], vals[i]) {
			return fmt.Sprintf("Reverse(%v) [%s]: element %d should have moved to %d; got %s", namesOf(dg), c17HistNames[h], i, n-1-i, showSeq(after)), "reverse/position"
		}
		if l.TypeOf(n-1-i) == at.TypeUndefined {
			return "Reverse left an undefined slot", "reverse/kind"
		}
	}
	l.Reverse()
	if again := snapList(l); !sameSeq(again, vals) {
		return fmt.Sprintf("Reverse twice on %v [%s] gives %s", namesOf(dg), c17HistNames[h], showSeq(again)), "reverse/involution"
	}
	return "", ""
}

func c17SortPanic(dg []int, h int) (msg, sig string) {
	alpha := k13()
	vals := make([]interface{}, len(dg))
	for i, d := range dg {
		vals[i] = alpha[d]
	}
	l := buildHist(h, vals, 7)
	p, _ := try(func() { l.Sort() })
	if !p {
		return fmt.Sprintf("Sort on %v (first element neither string, int nor float) did not panic; list now %s", namesOf(dg), showSeq(snapList(l))), "sortpanic/no-panic"
	}
	if after := snapList(l); !sameSeq(after, vals) {
		return fmt.Sprintf("panicking Sort changed %v into %s", namesOf(dg), showSeq(after)), "sortpanic/changed"
	}
	return "", ""
}
