#!/bin/bash
# build.sh <repo> <workdir> <verif-root> : builds (1) the scheduler-instrumented harness $WORK/c15 with
# `go build -overlay` (library sync/go statements rerouted to the cooperative scheduler, tag verif) and
# (2) the free-running race-detector harness $WORK/c15race (no overlay, real sync, -race).
set -e
REPO="$(readlink -f "$1")"; WORK="$2"; HERE="$3"
export GOFLAGS=-mod=mod GOPROXY=off GOSUMDB=off GOTOOLCHAIN=local GOCACHE="${VERIF_GOCACHE:-/verif/.cache/go-build}"
cd "$HERE/engine"
[ -f "$WORK/h.mod" ] || { sed "s#=> /repo#=> $REPO#" go.mod > "$WORK/h.mod"; : > "$WORK/h.sum"; }
mkdir -p "$WORK/ov"
go run -modfile="$WORK/h.mod" ./rewrite "$REPO" "$WORK/ov" "$HERE/engine/vsync/vsync.go" > "$WORK/rewrite.log"
go build -modfile="$WORK/h.mod" -overlay "$WORK/ov/overlay.json" -tags verif -o "$WORK/c15" ./c15
go build -modfile="$WORK/h.mod" -race -o "$WORK/c15race" ./c15
