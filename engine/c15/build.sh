#!/bin/bash
# build.sh <repo> <workdir> <verif-root> : builds (1) the scheduler-instrumented harness $WORK/c15 with
# `go build -overlay` (library sync/go statements rerouted to the cooperative scheduler, tag verif) and
# (2) the free-running race-detector harness $WORK/c15race (no overlay, real sync, -race).
set -e
REPO="$(readlink -f "$1")"; WORK="$2"; HERE="$3"
export GOFLAGS=-mod=mod GOPROXY=off GOSUMDB=off GOTOOLCHAIN=local GOCACHE="${VERIF_GOCACHE:-/verif/.cache/go-build}"
cd "$HERE/engine"
[ -f "$WORK/h.mod" ] || { sed "s#=> /repo#=> $REPO#" go.mod > "$WORK/h.mod"; : > "$WORK/h.sum"; }
mkdir -p "$WORK/ov"
go run -modfile="$WORK/h.mod" ./rewrite "$REPO" "$WORK/ov" "$HERE/engine/vsync/vsync.go" > "$WORK/rewrite.log"
rm -f "$WORK/noexplore"
if ! go build -modfile="$WORK/h.mod" -overlay "$WORK/ov/overlay.json" -tags verif -o "$WORK/c15" ./c15 2>"$WORK/build.err"; then
  # The instrumented library does not compile (it uses a synchronisation construct the rewriter cannot
  # lower). That is a limit of the explorer, not a defect of the tree under test: build the orchestrator
  # against the UNinstrumented library (overlay = scheduler package only) and let it run the free-running
  # pass alone; the evidence says that no schedule was explored.
  cat "$WORK/build.err" >&2
  { echo "instrumented build failed:"; head -5 "$WORK/build.err"; } > "$WORK/noexplore"
  python3 - "$WORK/ov/overlay.json" "$REPO" > "$WORK/ov/overlay-min.json" <<'PY'
import json,sys
o=json.load(open(sys.argv[1]))
print(json.dumps({"Replace":{k:v for k,v in o["Replace"].items() if "/vsync/" in k}}))
PY
  go build -modfile="$WORK/h.mod" -overlay "$WORK/ov/overlay-min.json" -tags verif -o "$WORK/c15" ./c15
fi
go build -modfile="$WORK/h.mod" -race -o "$WORK/c15race" ./c15
