//go:build verif

package main

import (
	vsync "github.com/DanielSvub/anytype/vsync"
)

const scheduled = true

func rtGo(f func())      { vsync.Go(f) }
func rtYield()           { vsync.Yield() }
func rtSetFine(on bool)  { vsync.SetFine(on) }
func rtSetDelay(on bool) { vsync.DelayBounded = on }

// harness threads: spawn without a scheduling point, join without counters
func rtSpawn(f func()) { vsync.GoQuiet(f) }

type rtJoiner struct{}

func (j *rtJoiner) Add(int) {}
func (j *rtJoiner) Done()   {}
func (j *rtJoiner) Wait()   { vsync.JoinAll() }

type rtWG = vsync.WaitGroup

type execT = vsync.Exec
type statsT = vsync.Stats

func rtExplore(bound int, stop func() bool, mk func() func(), check func(x *execT, schedule []int) bool) statsT {
	return vsync.Explore(bound, stop, mk, check)
}

func rtRun(prefix []int, body func()) *execT { return vsync.Run(prefix, body) }

// rtSeq runs f alone under the scheduler (one thread, default schedule).
func rtSeq(f func()) { vsync.Run(nil, f) }
