// c15: model checking of property C15 (async variants and concurrent read-only calls).
//
//	c15 quick|thorough            orchestrator (scheduler build): shards scenarios over worker processes,
//	                              runs the free-running race pass, writes evidence/C15.json
//	c15 -worker i/n <tier>        explores the scenarios with index % n == i, prints one JSON line each
//	c15 -replay <file>            re-executes one recorded schedule without the explorer
//	c15race <tier>                (built without the scheduler, with -race) free-running pass
package main

import (
	"bufio"
	"bytes"
	"encoding/json"
	"fmt"
	"os"
	"os/exec"
	"path/filepath"
	"runtime"
	"sort"
	"strconv"
	"strings"
	"sync"
	"sync/atomic"
	"time"

	"verif/ev"
)

type scenResult struct {
	Index       int     `json:"index"`
	Name        string  `json:"name"`
	Family      string  `json:"family"`
	Executions  int64   `json:"executions"`
	Decisions   int64   `json:"decisions"`
	Nodes       int64   `json:"nodes"`
	Bound       int     `json:"bound_completed"`
	Complete    bool    `json:"all_interleavings"`
	Outcomes    int     `json:"distinct_outcomes"`
	MaxThreads  int     `json:"max_threads"`
	Cut         string  `json:"cut,omitempty"`
	Msg         string  `json:"msg,omitempty"`
	Sig         string  `json:"sig,omitempty"`
	Schedule    []int   `json:"schedule,omitempty"`
	HarnessErr  string  `json:"harness_error,omitempty"`
	SampleSched []int   `json:"sample_schedule,omitempty"`
	Diverged    int64   `json:"diverged,omitempty"`
	WallS       float64 `json:"wall_s"`
}

func allScenarios(tier string) []scenario {
	th := tier == "thorough"
	mb := func(n int) int {
		if n <= 2 {
			return 99
		}
		if th {
			return 6
		}
		return 4
	}
	out := asyncScenarios(mb)
	out = append(out, rendezvousScenarios(mb)...)
	out = append(out, readonlyScenarios(th)...)
	fb := 2
	if th {
		fb = 3
	}
	out = append(out, fineScenarios(fb)...)
	lb := 1
	if th {
		lb = 2
	}
	out = append(out, asyncLargeScenarios(lb)...)
	out = append(out, nestedScenarios(func(threads int) int {
		switch {
		case threads <= 2:
			return 99
		case threads <= 4:
			if th {
				return 4
			}
			return 2
		}
		if th {
			return 2
		}
		return 1
	})...)
	return out
}

// progress counts completed executions of this worker process; the watchdog in worker() ends the process
// when a single execution does not complete for two minutes (a thread spinning or sleeping outside the
// scheduler's control): the orchestrator then reports the schedules as not explored instead of hanging.
var progress int64

func exploreScenario(idx int, sc scenario, deadline time.Time) scenResult {
	res := scenResult{Index: idx, Name: sc.Name, Family: sc.Family}
	start := time.Now()
	outcomes := map[string]bool{}
	var cur *instance
	stop := func() bool { return time.Now().After(deadline) }
	// bound schedule: a cheap bounded pass first (counterexamples with few preemptions come out first),
	// then all interleavings (bound 99) when the scenario allows it
	bounds := []int{2, 99}
	if sc.MaxBound < 99 {
		bounds = []int{sc.MaxBound}
	}
	rtSetFine(sc.Fine)
	defer rtSetFine(false)
	rtSetDelay(sc.Delay)
	defer rtSetDelay(false)
	for _, bound := range bounds {
		var viol *verdict
		var vsched []int
		outcomes = map[string]bool{}
		st := rtExplore(bound, stop, func() func() { cur = sc.Mk(); return cur.Body }, func(x *execT, schedule []int) bool {
			atomic.AddInt64(&progress, 1)
			if x != nil && x.Diverged != "" {
				// Where the library iterates over a Go map, the number of scheduling points before an early exit (fine-
				// grained family) or the order in which lock operations and spawns occur (a library with internal
				// locking) depends on the randomised iteration order, so a recorded prefix may not be replayable.
				// That is nondeterminism of the language the explorer cannot own: the execution is counted and
				// skipped, never judged.
				res.Diverged++
				return true
			}
			v := cur.Oracle(x)
			if v.Msg != "" {
				viol, vsched = &v, append([]int{}, schedule...)
				return false
			}
			outcomes[cur.Outcome()] = true
			if res.SampleSched == nil && len(schedule) > 3 {
				res.SampleSched = append([]int{}, schedule...)
			}
			return true
		})
		res.Executions, res.Decisions, res.Nodes, res.MaxThreads = st.Executions, st.Decisions, st.Nodes, st.MaxThreads
		res.Outcomes = len(outcomes)
		if viol != nil {
			res.Msg, res.Sig, res.Schedule = viol.Msg, viol.Sig, vsched
			// five-fold replay of the recorded schedule on fresh instances
			same, other := 0, ""
			for k := 0; k < 5; k++ {
				inst := sc.Mk()
				x := rtRun(vsched, inst.Body)
				if v := inst.Oracle(x); v.Sig == viol.Sig {
					same++
				} else {
					other = fmt.Sprintf("schedule %v gave %q first and %q on replay %d", vsched, viol.Sig, v.Sig, k)
				}
			}
			switch {
			case same == 5:
			case same > 0:
				res.Msg += fmt.Sprintf(" (intermittent: reproduced in %d of 5 replays of the schedule; library-internal scheduling points depend on map iteration order)", same)
			default:
				// a candidate that never reproduces is not reported and not fatal (it is named in the evidence)
				res.Cut = "a violation candidate (" + viol.Sig + ") did not reproduce in 5 replays of its schedule and was dropped: " + other
				res.Msg, res.Sig, res.Schedule = "", "", nil
			}
			break
		}
		if st.Stopped {
			res.Cut = fmt.Sprintf("deadline reached while exploring preemption bound %d", bound)
			break
		}
		res.Bound = bound
		if st.Complete {
			res.Complete = true
			break
		}
	}
	res.WallS = time.Since(start).Seconds()
	return res
}

func worker(spec string, tier string) {
	go func() {
		last, since := int64(-1), time.Now()
		for {
			time.Sleep(5 * time.Second)
			if p := atomic.LoadInt64(&progress); p != last {
				last, since = p, time.Now()
			} else if time.Since(since) > 2*time.Minute {
				fmt.Fprintln(os.Stderr, "watchdog: one execution made no progress for two minutes - all goroutines are asleep or spinning outside the scheduler")
				os.Exit(3)
			}
		}
	}()
	parts := strings.Split(spec, "/")
	i, _ := strconv.Atoi(parts[0])
	n, _ := strconv.Atoi(parts[1])
	budget := 540
	if tier == "thorough" {
		budget = 2100
	}
	if s := os.Getenv("VERIF_BUDGET_S"); s != "" {
		if b, err := strconv.Atoi(s); err == nil {
			budget = b * 9 / 10
		}
	}
	deadline := time.Now().Add(time.Duration(budget) * time.Second)
	w := bufio.NewWriter(os.Stdout)
	defer w.Flush()
	enc := json.NewEncoder(w)
	for idx, sc := range allScenarios(tier) {
		if idx%n != i {
			continue
		}
		enc.Encode(exploreScenario(idx, sc, deadline))
		w.Flush()
	}
}

// ---- free-running race pass (built with -race, without the scheduler) ----
func racePass(tier string) {
	reps := 40
	if tier == "thorough" {
		reps = 200
	}
	scs := allScenarios(tier)
	ran, problems, hung := 0, 0, 0
	for _, procs := range []int{1, 2, 16} {
		runtime.GOMAXPROCS(procs)
		for idx, sc := range scs {
			if sc.Family == "fine" {
				continue // same bodies as the readonly family
			}
			if sc.Family == "async-large" && procs != 1 {
				continue // these scenarios set GOMAXPROCS themselves
			}
			if sc.Family == "readonly" && idx%7 != 0 && tier != "thorough" {
				continue
			}
		reps:
			for r := 0; r < reps; r++ {
				inst := sc.Mk()
				done := make(chan struct{})
				go func() { defer close(done); inst.Body() }()
				select {
				case <-done:
				case <-time.After(60 * time.Second):
					fmt.Printf("RACEPASS-PROBLEM %s: body did not finish within 60 s (GOMAXPROCS=%d)\n", sc.Name, procs)
					problems++
					hung++
					if hung >= 3 {
						fmt.Printf("RACEPASS-DONE executions=%d problems=%d (stopped after 3 bodies that never finished)\n", ran, problems)
						return
					}
					break reps
				}
				ran++
				if v := inst.Oracle(nil); v.Msg != "" {
					fmt.Printf("RACEPASS-PROBLEM %s [GOMAXPROCS=%d]: %s (sig %s)\n", sc.Name, procs, v.Msg, v.Sig)
					problems++
					break
				}
			}
		}
	}
	fmt.Printf("RACEPASS-DONE executions=%d problems=%d\n", ran, problems)
}

func replay(file string) {
	b, err := os.ReadFile(file)
	if err != nil {
		fmt.Println(err)
		os.Exit(2)
	}
	var rec struct {
		Witness struct {
			Scenario string `json:"scenario"`
			Schedule []int  `json:"schedule"`
			Tier     string `json:"tier"`
		} `json:"witness"`
	}
	json.Unmarshal(b, &rec)
	for _, sc := range allScenarios(rec.Witness.Tier) {
		if sc.Name == rec.Witness.Scenario {
			inst := sc.Mk()
			x := rtRun(rec.Witness.Schedule, inst.Body)
			v := inst.Oracle(x)
			fmt.Printf("scenario %s\nschedule %v\ndecisions %d threads %d deadlock=%v\nverdict: %s %s\n", sc.Name, rec.Witness.Schedule, len(x.Points), x.Threads, x.Deadlock, v.Sig, v.Msg)
			if v.Msg != "" {
				os.Exit(1)
			}
			return
		}
	}
	fmt.Println("scenario not found")
	os.Exit(2)
}

func main() {
	if len(os.Args) < 2 {
		fmt.Println("usage: c15 quick|thorough | -worker i/n tier | -replay file")
		os.Exit(2)
	}
	if !scheduled {
		racePass(os.Args[1])
		return
	}
	switch os.Args[1] {
	case "-worker":
		worker(os.Args[2], os.Args[3])
		return
	case "-replay":
		replay(os.Args[2])
		return
	}
	tier := os.Args[1]
	root := os.Getenv("VERIF_ROOT")
	if root == "" {
		root = "/verif"
	}
	c := ev.New("C15", tier, "model_checking", root)
	n := c.Workers
	self, _ := os.Executable()
	var mu sync.Mutex
	var results []scenResult
	var wg sync.WaitGroup
	noExplore := os.Getenv("VERIF_C15_NOEXPLORE")
	if noExplore != "" {
		n = 0
		c.Cut("NO SCHEDULE WAS EXPLORED: " + noExplore + " - the library under test uses a construct the scheduler overlay cannot lower; only the free-running pass (race detector + oracles, not exhaustive) was run")
	}
	var unexplorable []string
	var diverged int64
	for i := 0; i < n; i++ {
		wg.Add(1)
		go func(i int) {
			defer wg.Done()
			cmd := exec.Command(self, "-worker", fmt.Sprintf("%d/%d", i, n), tier)
			cmd.Env = append(os.Environ(), "GOMAXPROCS=1", fmt.Sprintf("VERIF_BUDGET_S=%d", int(time.Until(c.Deadline).Seconds())))
			var errBuf bytes.Buffer
			cmd.Stderr = &errBuf
			out, err := cmd.StdoutPipe()
			if err != nil {
				ev.Harness("C15", "cannot start worker: %v", err)
			}
			if err := cmd.Start(); err != nil {
				ev.Harness("C15", "cannot start worker: %v", err)
			}
			sc := bufio.NewScanner(out)
			sc.Buffer(make([]byte, 1<<20), 1<<26)
			for sc.Scan() {
				var r scenResult
				if json.Unmarshal(sc.Bytes(), &r) == nil && r.Name != "" {
					mu.Lock()
					results = append(results, r)
					mu.Unlock()
				}
			}
			if err := cmd.Wait(); err != nil {
				if strings.Contains(errBuf.String(), "all goroutines are asleep") {
					// a thread blocked in a primitive the scheduler does not control (a channel of the standard
					// library, a timer): a limit of the explorer, not a verdict about the tree under test
					mu.Lock()
					unexplorable = append(unexplorable, fmt.Sprintf("worker %d stopped: a thread blocked outside the scheduler's control", i))
					mu.Unlock()
					return
				}
				os.Stderr.Write(errBuf.Bytes())
				ev.Harness("C15", "worker %d failed: %v", i, err)
			}
			os.Stderr.Write(errBuf.Bytes())
		}(i)
	}
	wg.Wait()
	sort.Slice(results, func(a, b int) bool { return results[a].Index < results[b].Index })
	total := len(allScenarios(tier))
	for _, u := range unexplorable {
		c.Cut("SCHEDULES NOT EXPLORED: " + u)
	}
	if len(results) != total && noExplore == "" && len(unexplorable) == 0 {
		ev.Harness("C15", "workers reported %d of %d scenarios", len(results), total)
	}
	fam := map[string]map[string]int64{}
	var asyncTable []map[string]interface{}
	oneOutcome := 0
	for _, r := range results {
		if r.HarnessErr != "" {
			ev.Harness("C15", "non-reproducible violation in %s: %s", r.Name, r.HarnessErr)
		}
		c.AddStates(int(r.Nodes))
		c.AddTrans(int(r.Decisions))
		c.Eval(int(r.Executions))
		f := fam[r.Family]
		if f == nil {
			f = map[string]int64{}
			fam[r.Family] = f
		}
		f["scenarios"]++
		f["executions"] += r.Executions
		if r.Diverged > 0 {
			f["executions_not_replayable_(map_iteration_order_inside_the_library)"] += r.Diverged
			diverged += r.Diverged
		}
		if r.Complete {
			f["scenarios_with_all_interleavings_explored"]++
		}
		if r.Cut != "" {
			c.Cut(r.Name + ": " + r.Cut)
		} else if !r.Complete && r.Msg == "" {
			c.Cut(fmt.Sprintf("%s: interleavings explored up to preemption/delay bound %d only", r.Name, r.Bound))
		}
		if r.Family == "async" || r.Family == "async-large" || r.Family == "async-nested" {
			asyncTable = append(asyncTable, map[string]interface{}{"scenario": r.Name, "executions": r.Executions, "preemption_bound_completed": r.Bound, "all_interleavings": r.Complete, "distinct_outcomes": r.Outcomes, "threads": r.MaxThreads})
			if r.Outcomes <= 1 && r.MaxThreads > 2 && r.Msg == "" && r.Family == "async" {
				oneOutcome++
			}
			c.Nontrivial(r.Name)
			if r.SampleSched != nil {
				c.Sample(map[string]interface{}{"scenario": r.Name, "one_schedule_explored (choice index into the enabled set per decision)": r.SampleSched, "executions": r.Executions})
			}
		} else if r.Index%97 == 0 {
			c.Sample(map[string]interface{}{"scenario": r.Name, "executions": r.Executions, "all_interleavings": r.Complete})
		}
		if r.Msg != "" {
			c.Violate(ev.Violation{Sig: r.Sig, Msg: fmt.Sprintf("[%s] schedule %v: %s", r.Name, r.Schedule, r.Msg),
				Witness: map[string]interface{}{"scenario": r.Name, "schedule": r.Schedule, "tier": tier}}, nil)
		}
	}
	if diverged > 0 {
		c.Cut(fmt.Sprintf("%d executions could not be replayed: the sequence of scheduling points depended on Go's randomised map iteration order; they were skipped, not judged", diverged))
	}
	c.Set("async_scenarios", asyncTable)
	c.Set("families", fam)
	c.Set("traces_validated_against_impl", c.Evals())
	if oneOutcome > 0 {
		// not an error: an implementation may legitimately serialise its callbacks; but the number is in the
		// evidence, because for such scenarios the enumeration of interleavings decided nothing
		c.Cut(fmt.Sprintf("%d multi-thread async scenarios produced a single observable outcome (callbacks never overlapped)", oneOutcome))
	}
	// supplementary free-running race pass
	raceBin := filepath.Join(filepath.Dir(self), "c15race")
	rp := map[string]interface{}{"binary": "harness bodies rebuilt with -race, real sync package, no scheduler; GOMAXPROCS 1, 2, 16"}
	if _, err := os.Stat(raceBin); err == nil {
		cmd := exec.Command(raceBin, tier)
		cmd.Env = append(os.Environ(), "GORACE=halt_on_error=0 exitcode=0")
		out, _ := cmd.CombinedOutput()
		text := string(out)
		races := strings.Count(text, "WARNING: DATA RACE")
		if i := strings.Index(text, "fatal error: concurrent map"); i >= 0 {
			// the runtime's own detector of unsynchronised map access killed the free-running pass
			j := i + 1500
			if j > len(text) {
				j = len(text)
			}
			c.Violate(ev.Violation{Sig: "racepass/concurrent-map-access", Msg: "the free-running pass crashed: " + text[i:j], Witness: text[i:j]}, nil)
			rp["summary"] = "crashed: concurrent map access"
		}
		rp["data_races_reported"] = races
		for _, line := range strings.Split(text, "\n") {
			if strings.HasPrefix(line, "RACEPASS-DONE") {
				rp["summary"] = line
			}
			if strings.HasPrefix(line, "RACEPASS-PROBLEM") {
				c.Violate(ev.Violation{Sig: "racepass/oracle", Msg: line, Witness: line}, nil)
			}
		}
		if races > 0 {
			first := text[strings.Index(text, "WARNING: DATA RACE"):]
			if len(first) > 3000 {
				first = first[:3000]
			}
			sig := "racepass/data-race"
			if strings.Contains(first, "anytype.") {
				sig = "racepass/data-race-in-library"
			}
			c.Violate(ev.Violation{Sig: sig, Msg: fmt.Sprintf("the race detector reported %d data race(s) in the free-running pass; first report:\n%s", races, first), Witness: first}, nil)
		}
		if rp["summary"] == nil {
			// the free-running pass ended without its final line: the process died (a panic or a fatal runtime error
			// inside a library goroutine, e.g. "WaitGroup is reused before previous Wait has returned")
			at := strings.Index(text, "panic:")
			if f := strings.Index(text, "fatal error:"); f >= 0 && (at < 0 || f < at) {
				at = f
			}
			if at >= 0 {
				excerpt := text[at:min(len(text), at+1500)]
				c.Violate(ev.Violation{Sig: "racepass/crash", Msg: "the free-running pass crashed: " + excerpt, Witness: excerpt}, nil)
				rp["summary"] = "crashed"
			} else {
				c.Cut("the free-running pass did not complete and printed no crash report: " + text[max(0, len(text)-400):])
				rp["summary"] = "did not complete"
			}
		}
	} else {
		rp["skipped"] = "race binary not built"
	}
	rp["exhaustive"] = false
	c.Set("race_pass", rp)
	c.Rule("stateless model checking under a cooperative scheduler injected with go build -overlay (library's sync.WaitGroup/Mutex and go statements rerouted): (a) ForEachAsync and MapAsync on lists and objects of 0..3 entries, callbacks yield before and after logging - all interleavings for n<=2, iterative preemption bounding for n=3; oracle per execution: completion barrier, exactly-once multiset with matching pairs and handle identity, receiver returned, MapAsync Equals Map, no deadlock, every thread finished; (b) 2 and 3 threads performing 1-2 read-only calls each (17 list / 16 object operations, every unordered pair; triples and 2x2 over storage-building ones) on one shared container of 5 private shapes (with and without spare capacity, nested, object), every call followed by a yield and a second observation of its result: results equal the sequential twin at call time and later, shared content and private storage fingerprint (spine pointer/len/cap/all cap slots, map pointer/size) unchanged around every call. evaluations = complete executions.")
	c.Assume("scheduling points are the library's synchronisation operations and the harness's yields; unsynchronised accesses inside a step are not interleaved by the explorer - they are covered by the write-freedom fingerprint (exhaustive at call granularity) and by the supplementary, non-exhaustive free-running -race pass",
		"object workers are spawned in Go map iteration order; workers run key-independent control flow, so the schedule tree is the same for every spawn order",
		"for data-race-free executions the Go memory model guarantees sequential consistency, so behaviours on any GOMAXPROCS are among the enumerated interleavings")
	os.Exit(c.Finish())
}

func max(a, b int) int {
	if a > b {
		return a
	}
	return b
}

func min(a, b int) int {
	if a < b {
		return a
	}
	return b
}
