//go:build !verif

package main

import (
	"runtime"
	"sync"
)

const scheduled = false

func rtGo(f func())      { go f() }
func rtYield()           { runtime.Gosched() }
func rtSetFine(on bool)  {}
func rtSetDelay(on bool) {}
func rtSpawn(f func())   { go f() }

type rtJoiner = sync.WaitGroup

type rtWG = sync.WaitGroup

type pointT struct {
	Enabled        []int
	Chosen         int
	RunningEnabled bool
}
type execT struct {
	Points     []pointT
	Deadlock   bool
	DeadlockAt string
	Panic      interface{}
	PanicIn    int
	Diverged   string
	Threads    int
}
type statsT struct {
	Executions, Decisions, Nodes int64
	MaxThreads, MaxDecisions     int
	BoundReached                 int
	Complete, Stopped            bool
}

func rtExplore(bound int, stop func() bool, mk func() func(), check func(x *execT, schedule []int) bool) statsT {
	panic("exploration needs the scheduler build")
}
func rtRun(prefix []int, body func()) *execT { panic("needs the scheduler build") }

// rtSeq runs f (free-running build: the real synchronisation primitives are live anyway).
func rtSeq(f func()) { f() }
