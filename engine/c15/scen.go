package main

import (
	"fmt"
	"runtime"
	"sort"
	"strings"
	"sync"
	"sync/atomic"

	at "github.com/DanielSvub/anytype"
	"verif/peek"
)

type verdict struct{ Msg, Sig string }

type instance struct {
	Body    func()
	Oracle  func(x *execT) verdict
	Outcome func() string // observable outcome of this execution (for counting distinct outcomes)
}

type scenario struct {
	Name     string
	Family   string // "async" | "readonly"
	MaxBound int    // highest preemption bound to attempt
	Delay    bool   // delay bounding: every departure from the default schedule costs 1 (many-thread scenarios)
	Fine     bool   // library-internal yields (function entries, loop iterations) are scheduling points
	Mk       func() *instance
}

// ---------- canonical rendering of results ----------

func render(v interface{}) string {
	switch x := v.(type) {
	case nil:
		return "nil"
	case at.List:
		var sb strings.Builder
		sb.WriteString("[")
		for i := 0; i < x.Count(); i++ {
			if i > 0 {
				sb.WriteString(",")
			}
			sb.WriteString(render(x.Get(i)))
		}
		sb.WriteString("]")
		return sb.String()
	case at.Object:
		ks := x.Keys().StringSlice()
		sort.Strings(ks)
		var sb strings.Builder
		sb.WriteString("{")
		for i, k := range ks {
			if i > 0 {
				sb.WriteString(",")
			}
			fmt.Fprintf(&sb, "%q:%s", k, render(x.Get(k)))
		}
		sb.WriteString("}")
		return sb.String()
	case []interface{}:
		parts := make([]string, len(x))
		for i, e := range x {
			parts[i] = render(e)
		}
		return "go[" + strings.Join(parts, ",") + "]"
	case map[string]interface{}:
		ks := make([]string, 0, len(x))
		for k := range x {
			ks = append(ks, k)
		}
		sort.Strings(ks)
		parts := make([]string, len(ks))
		for i, k := range ks {
			parts[i] = fmt.Sprintf("%q:%s", k, render(x[k]))
		}
		return "go{" + strings.Join(parts, ",") + "}"
	case string:
		return fmt.Sprintf("%q", x)
	default:
		return fmt.Sprintf("%T(%v)", v, v)
	}
}

// ---------- family (a): ForEachAsync / MapAsync ----------

type asyncState struct {
	mu           sync.Mutex // protects the log (callbacks are the user's code; the log is the harness's)
	log          []string
	starts, ends map[string]int
	endsAtReturn int
	returned     bool
	retSame      bool
	resOK        string
}

func (s *asyncState) add(kind, key string, v interface{}) {
	s.mu.Lock()
	id := key + "=" + ident(v)
	s.log = append(s.log, kind+":"+id)
	if kind == "s" {
		s.starts[id]++
	} else {
		s.ends[id]++
	}
	s.mu.Unlock()
}

func (s *asyncState) endCount() int {
	s.mu.Lock()
	defer s.mu.Unlock()
	n := 0
	for _, c := range s.ends {
		n += c
	}
	return n
}

// ident renders a callback argument with container identity.
func ident(v interface{}) string {
	switch x := v.(type) {
	case at.List:
		return fmt.Sprintf("List@%p", x)
	case at.Object:
		return fmt.Sprintf("Object@%p", x)
	}
	return fmt.Sprintf("%T(%v)", v, v)
}

func tagKV(k string, v interface{}) interface{} {
	switch x := v.(type) {
	case at.List, at.Object:
		return x
	}
	return fmt.Sprintf("%s->%T(%v)", k, v, v)
}

func asyncOracle(st *asyncState, what string, want map[string]bool, n int, isMap bool) func(x *execT) verdict {
	return func(x *execT) verdict {
		if x != nil {
			if x.Diverged != "" {
				return verdict{"schedule replay diverged: " + x.Diverged, "harness/diverged"}
			}
			if x.Deadlock {
				return verdict{what + ": deadlock - " + x.DeadlockAt, "async/deadlock"}
			}
			if x.Panic != nil {
				return verdict{fmt.Sprintf("%s: panic in thread %d: %v", what, x.PanicIn, x.Panic), "async/panic"}
			}
		}
		st.mu.Lock()
		defer st.mu.Unlock()
		if !st.returned {
			return verdict{what + ": the call never returned", "async/no-return"}
		}
		if st.endsAtReturn != n {
			return verdict{fmt.Sprintf("%s returned when only %d of %d callbacks had returned (completion barrier broken); log at the end: %v", what, st.endsAtReturn, n, st.log), "async/barrier"}
		}
		for id := range want {
			if st.starts[id] != 1 || st.ends[id] != 1 {
				return verdict{fmt.Sprintf("%s: callback for %s ran %d times (finished %d); log %v", what, id, st.starts[id], st.ends[id], st.log), "async/exactly-once"}
			}
		}
		for id, c := range st.starts {
			if !want[id] {
				return verdict{fmt.Sprintf("%s: callback called %d times with %s which is not an entry of the container; log %v", what, c, id, st.log), "async/wrong-pair"}
			}
		}
		if !st.retSame {
			if isMap {
				return verdict{what + ": " + st.resOK, "async/map-result"}
			}
			return verdict{what + " did not return its receiver", "async/return"}
		}
		return verdict{}
	}
}

func asyncScenarios(maxBound func(n int) int) []scenario {
	var out []scenario
	for n := 0; n <= 3; n++ {
		n := n
		mkVals := func() []interface{} { return []interface{}{1, "a", at.NewList(5)}[:n] }
		keys := []string{"a", "b", "c"}[:n]
		out = append(out, scenario{Name: fmt.Sprintf("list(n=%d).ForEachAsync", n), Family: "async", MaxBound: maxBound(n), Mk: func() *instance {
			vals := mkVals()
			l := at.NewList(vals...)
			st := &asyncState{starts: map[string]int{}, ends: map[string]int{}}
			want := map[string]bool{}
			for i, v := range vals {
				want[fmt.Sprint(i)+"="+ident(v)] = true
			}
			return &instance{Body: func() {
				ret := l.ForEachAsync(func(i int, v interface{}) {
					rtYield()
					st.add("s", fmt.Sprint(i), v)
					rtYield()
					st.add("e", fmt.Sprint(i), v)
				})
				e := st.endCount()
				st.mu.Lock()
				st.endsAtReturn, st.returned, st.retSame = e, true, ret == l
				st.mu.Unlock()
			}, Oracle: asyncOracle(st, fmt.Sprintf("ForEachAsync on a list of %d", n), want, n, false),
				Outcome: func() string { st.mu.Lock(); defer st.mu.Unlock(); return strings.Join(stripPtr(st.log), " ") }}
		}})
		out = append(out, scenario{Name: fmt.Sprintf("list(n=%d).MapAsync", n), Family: "async", MaxBound: maxBound(n), Mk: func() *instance {
			vals := mkVals()
			l := at.NewList(vals...)
			twin := at.NewList(vals...)
			st := &asyncState{starts: map[string]int{}, ends: map[string]int{}}
			want := map[string]bool{}
			for i, v := range vals {
				want[fmt.Sprint(i)+"="+ident(v)] = true
			}
			return &instance{Body: func() {
				res := l.MapAsync(func(i int, v interface{}) interface{} {
					rtYield()
					st.add("s", fmt.Sprint(i), v)
					r := tagKV(fmt.Sprint(i), v)
					rtYield()
					st.add("e", fmt.Sprint(i), v)
					return r
				})
				e := st.endCount()
				exp := twin.Map(func(i int, v interface{}) interface{} { return tagKV(fmt.Sprint(i), v) })
				ok := res != nil && res != l && res.Equals(exp) && exp.Equals(res)
				msg := ""
				if !ok {
					msg = fmt.Sprintf("MapAsync returned %s, Map returns %s", safeStr(res), exp.String())
				}
				st.mu.Lock()
				st.endsAtReturn, st.returned, st.retSame, st.resOK = e, true, ok, msg
				st.mu.Unlock()
			}, Oracle: asyncOracle(st, fmt.Sprintf("MapAsync on a list of %d", n), want, n, true),
				Outcome: func() string { st.mu.Lock(); defer st.mu.Unlock(); return strings.Join(stripPtr(st.log), " ") }}
		}})
		out = append(out, scenario{Name: fmt.Sprintf("object(n=%d).ForEachAsync", n), Family: "async", MaxBound: maxBound(n), Mk: func() *instance {
			vals := mkVals()
			o := at.NewObject()
			want := map[string]bool{}
			for i, k := range keys {
				o.Set(k, vals[i])
				want[k+"="+ident(vals[i])] = true
			}
			st := &asyncState{starts: map[string]int{}, ends: map[string]int{}}
			return &instance{Body: func() {
				ret := o.ForEachAsync(func(k string, v interface{}) {
					rtYield()
					st.add("s", k, v)
					rtYield()
					st.add("e", k, v)
				})
				e := st.endCount()
				st.mu.Lock()
				st.endsAtReturn, st.returned, st.retSame = e, true, ret == o
				st.mu.Unlock()
			}, Oracle: asyncOracle(st, fmt.Sprintf("ForEachAsync on an object of %d", n), want, n, false),
				Outcome: func() string { st.mu.Lock(); defer st.mu.Unlock(); return strings.Join(stripPtr(st.log), " ") }}
		}})
		out = append(out, scenario{Name: fmt.Sprintf("object(n=%d).MapAsync", n), Family: "async", MaxBound: maxBound(n), Mk: func() *instance {
			vals := mkVals()
			o, twin := at.NewObject(), at.NewObject()
			want := map[string]bool{}
			for i, k := range keys {
				o.Set(k, vals[i])
				twin.Set(k, vals[i])
				want[k+"="+ident(vals[i])] = true
			}
			st := &asyncState{starts: map[string]int{}, ends: map[string]int{}}
			return &instance{Body: func() {
				res := o.MapAsync(func(k string, v interface{}) interface{} {
					rtYield()
					st.add("s", k, v)
					r := tagKV(k, v)
					rtYield()
					st.add("e", k, v)
					return r
				})
				e := st.endCount()
				exp := twin.Map(func(k string, v interface{}) interface{} { return tagKV(k, v) })
				ok := res != nil && res != o && res.Equals(exp) && exp.Equals(res)
				msg := ""
				if !ok {
					msg = fmt.Sprintf("MapAsync returned %s, Map returns %s", render(res), render(exp))
				}
				st.mu.Lock()
				st.endsAtReturn, st.returned, st.retSame, st.resOK = e, true, ok, msg
				st.mu.Unlock()
			}, Oracle: asyncOracle(st, fmt.Sprintf("MapAsync on an object of %d", n), want, n, true),
				Outcome: func() string { st.mu.Lock(); defer st.mu.Unlock(); return strings.Join(stripPtr(st.log), " ") }}
		}})
	}
	return out
}

// ---------- callbacks that wait for one another ----------

// rendezvousScenarios: every ForEachAsync callback announces itself and then waits until ALL callbacks of the
// call have started. With one goroutine per element every start order leads to completion; an implementation
// that starts a callback only after an earlier one has RETURNED (a throttle, a sequential fallback) never
// calls the later ones: "exactly once per element" and "returns after all calls have returned" both fail.
// (MapAsync is not driven this way: the unchanged tree runs its callbacks under one mutex, and the statement
// speaks of pure functions there.)
func rendezvousScenarios(bound func(n int) int) []scenario {
	var out []scenario
	for _, kind := range []string{"list", "object"} {
		for n := 2; n <= 3; n++ {
			kind, n := kind, n
			name := fmt.Sprintf("%s(n=%d).ForEachAsync with callbacks that wait for each other", kind, n)
			out = append(out, scenario{Name: name, Family: "async", MaxBound: bound(n), Mk: func() *instance {
				vals := []interface{}{1, "a", 2.5}[:n]
				keys := []string{"a", "b", "c"}[:n]
				l := at.NewList(vals...)
				o := at.NewObject()
				want := map[string]bool{}
				for i, k := range keys {
					o.Set(k, vals[i])
					if kind == "list" {
						want[fmt.Sprint(i)+"="+ident(vals[i])] = true
					} else {
						want[k+"="+ident(vals[i])] = true
					}
				}
				st := &asyncState{starts: map[string]int{}, ends: map[string]int{}}
				var all rtWG
				all.Add(n)
				cb := func(key string, v interface{}) {
					st.add("s", key, v)
					all.Done()
					all.Wait() // until every callback of this call has started
					st.add("e", key, v)
				}
				return &instance{Body: func() {
					same := false
					if kind == "list" {
						same = l.ForEachAsync(func(i int, v interface{}) { cb(fmt.Sprint(i), v) }) == l
					} else {
						same = o.ForEachAsync(func(k string, v interface{}) { cb(k, v) }) == o
					}
					e := st.endCount()
					st.mu.Lock()
					st.endsAtReturn, st.returned, st.retSame = e, true, same
					st.mu.Unlock()
				}, Oracle: asyncOracle(st, name, want, n, false),
					Outcome: func() string { st.mu.Lock(); defer st.mu.Unlock(); return strings.Join(stripPtr(st.log), " ") }}
			}})
		}
	}
	return out
}

// ---------- nested async calls ----------

// nestedScenarios: the callback of an async call itself calls an async operation - on the element it was
// given (a nested list), on the outer receiver, or on an unrelated list. Each worker of the outer call then
// waits for its own group of inner workers while other outer workers do the same. The statement's "MapAsync
// returns exactly what Map returns for the same pure function" and the completion barrier apply at both levels.
func nestedScenarios(bound func(threads int) int) []scenario {
	var out []scenario
	for _, okind := range []string{"list", "object"} {
		for _, oop := range []string{"MapAsync", "ForEachAsync"} {
			for _, iop := range []string{"MapAsync", "ForEachAsync"} {
				for _, tgt := range []string{"element", "receiver", "other"} {
					for _, sz := range [][2]int{{1, 1}, {2, 1}, {1, 2}, {2, 2}} {
						no, ni := sz[0], sz[1]
						if tgt == "receiver" && no != ni {
							continue
						}
						okind, oop, iop, tgt := okind, oop, iop, tgt
						name := fmt.Sprintf("%s(n=%d).%s{ %s(n=%d).%s }", okind, no, oop, tgt, ni, iop)
						out = append(out, scenario{Name: name, Family: "async-nested", MaxBound: bound(no + no*ni), Mk: func() *instance {
							other := at.NewList(intsTo(ni, 100)...)
							elems := make([]interface{}, no)
							for i := range elems {
								if tgt == "element" {
									elems[i] = at.NewList(intsTo(ni, 10*(i+1))...)
								} else {
									elems[i] = i + 1
								}
							}
							keys := []string{"a", "b"}[:no]
							var outerL at.List
							var outerO at.Object
							if okind == "list" {
								outerL = at.NewList(elems...)
							} else {
								outerO = at.NewObject()
								for i, k := range keys {
									outerO.Set(k, elems[i])
								}
							}
							st := &asyncState{starts: map[string]int{}, ends: map[string]int{}}
							want := map[string]bool{}
							innerKeys := func() []string {
								if tgt == "receiver" && okind == "object" {
									return keys
								}
								ks := make([]string, ni)
								for j := range ks {
									ks[j] = fmt.Sprint(j)
								}
								return ks
							}()
							for i := 0; i < no; i++ {
								ok := fmt.Sprint(i)
								if okind == "object" {
									ok = keys[i]
								}
								want["outer "+ok+"="+ident("")] = true
								for _, ik := range innerKeys {
									want["inner "+ok+"/"+ik+"="+ident("")] = true
								}
							}
							// the inner operation: async (real = true) or its sequential counterpart (for the expected value)
							inner := func(real bool, okey string, v interface{}) interface{} {
								var target interface{} = other
								if tgt == "element" {
									target = v
								} else if tgt == "receiver" {
									if okind == "list" {
										target = outerL
									} else {
										target = outerO
									}
								}
								note := func(ik string) {
									if real {
										st.add("s", "inner "+okey+"/"+ik, "")
										st.add("e", "inner "+okey+"/"+ik, "")
									}
								}
								switch t := target.(type) {
								case at.List:
									f := func(j int, x interface{}) interface{} {
										note(fmt.Sprint(j))
										return tagKV(okey+"/"+fmt.Sprint(j), scalarOf(x))
									}
									g := func(j int, x interface{}) { note(fmt.Sprint(j)) }
									switch {
									case iop == "MapAsync" && real:
										return t.MapAsync(f)
									case iop == "MapAsync":
										return t.Map(f)
									case real:
										t.ForEachAsync(g)
									default:
										t.ForEach(g)
									}
								case at.Object:
									f := func(k string, x interface{}) interface{} { note(k); return tagKV(okey+"/"+k, scalarOf(x)) }
									g := func(k string, x interface{}) { note(k) }
									switch {
									case iop == "MapAsync" && real:
										return t.MapAsync(f)
									case iop == "MapAsync":
										return t.Map(f)
									case real:
										t.ForEachAsync(g)
									default:
										t.ForEach(g)
									}
								}
								return "done " + okey
							}
							return &instance{Body: func() {
								var res, exp interface{}
								var same bool
								cbL := func(real bool) func(i int, v interface{}) interface{} {
									return func(i int, v interface{}) interface{} {
										if real {
											st.add("s", "outer "+fmt.Sprint(i), "")
										}
										r := inner(real, fmt.Sprint(i), v)
										if real {
											st.add("e", "outer "+fmt.Sprint(i), "")
										}
										return r
									}
								}
								cbO := func(real bool) func(k string, v interface{}) interface{} {
									return func(k string, v interface{}) interface{} {
										if real {
											st.add("s", "outer "+k, "")
										}
										r := inner(real, k, v)
										if real {
											st.add("e", "outer "+k, "")
										}
										return r
									}
								}
								switch {
								case okind == "list" && oop == "MapAsync":
									res = outerL.MapAsync(cbL(true))
								case okind == "list":
									same = outerL.ForEachAsync(func(i int, v interface{}) { cbL(true)(i, v) }) == outerL
								case oop == "MapAsync":
									res = outerO.MapAsync(cbO(true))
								default:
									same = outerO.ForEachAsync(func(k string, v interface{}) { cbO(true)(k, v) }) == outerO
								}
								e := st.endCount()
								msg := ""
								if oop == "MapAsync" {
									if okind == "list" {
										exp = outerL.Map(cbL(false))
										rl, _ := res.(at.List)
										same = rl != nil && rl.Equals(exp.(at.List)) && exp.(at.List).Equals(rl)
									} else {
										exp = outerO.Map(cbO(false))
										ro, _ := res.(at.Object)
										same = ro != nil && ro.Equals(exp.(at.Object)) && exp.(at.Object).Equals(ro)
									}
									if !same {
										msg = fmt.Sprintf("nested MapAsync returned %s, the sequential Map returns %s", render(res), render(exp))
									}
								}
								st.mu.Lock()
								st.endsAtReturn, st.returned, st.retSame, st.resOK = e, true, same, msg
								st.mu.Unlock()
							}, Oracle: asyncOracle(st, name, want, len(want), oop == "MapAsync"),
								Outcome: func() string { st.mu.Lock(); defer st.mu.Unlock(); return strings.Join(st.log, " ") }}
						}})
					}
				}
			}
		}
	}
	return out
}

func intsTo(n, base int) []interface{} {
	v := make([]interface{}, n)
	for i := range v {
		v[i] = base + i
	}
	return v
}

// scalarOf keeps scalars and replaces containers by their rendering (callback results must not nest the receiver in itself)
func scalarOf(x interface{}) interface{} {
	switch x.(type) {
	case at.List, at.Object:
		return render(x)
	}
	return x
}

func safeStr(l at.List) (s string) {
	defer func() {
		if recover() != nil {
			s = "<nil/panic>"
		}
	}()
	return l.String()
}

// stripPtr removes pointer values from log entries so that outcomes compare across executions.
func stripPtr(log []string) []string {
	out := make([]string, len(log))
	for i, e := range log {
		if j := strings.Index(e, "@0x"); j >= 0 {
			e = e[:j]
		}
		out[i] = e
	}
	return out
}

// ---------- family (b): concurrent read-only calls on one shared container ----------

type roOp struct {
	Name string
	F    func(shared interface{}, own at.List, ownObj at.Object) interface{}
}

func listRoOps() []roOp {
	L := func(s interface{}) at.List { return s.(at.List) }
	return []roOp{
		{"Get(0)", func(s interface{}, _ at.List, _ at.Object) interface{} { return L(s).Get(0) }},
		{"Count", func(s interface{}, _ at.List, _ at.Object) interface{} { return L(s).Count() }},
		{"TypeOf(1)", func(s interface{}, _ at.List, _ at.Object) interface{} { return int(L(s).TypeOf(1)) }},
		{"String", func(s interface{}, _ at.List, _ at.Object) interface{} { return L(s).String() }},
		{"Clone", func(s interface{}, _ at.List, _ at.Object) interface{} { return L(s).Clone() }},
		{"Equals(own)", func(s interface{}, own at.List, _ at.Object) interface{} { return L(s).Equals(own) }},
		{"Equals(same length, differs at the end)", func(s interface{}, _ at.List, _ at.Object) interface{} {
			vals := L(s).Slice()
			if len(vals) == 0 {
				return L(s).Equals(at.NewList())
			}
			vals[len(vals)-1] = "differs"
			return L(s).Equals(at.NewList(vals...))
		}},
		{"Equals(equal copy)", func(s interface{}, _ at.List, _ at.Object) interface{} {
			return L(s).Equals(at.NewList(L(s).Slice()...))
		}},
		{"ForEachAsync(count)", func(s interface{}, _ at.List, _ at.Object) interface{} {
			var n int64
			ret := L(s).ForEachAsync(func(int, interface{}) { atomic.AddInt64(&n, 1) })
			return fmt.Sprintf("%d callbacks, receiver returned: %v", atomic.LoadInt64(&n), ret == L(s))
		}},
		{"MapAsync(identity)", func(s interface{}, _ at.List, _ at.Object) interface{} {
			return L(s).MapAsync(func(_ int, v interface{}) interface{} { return v })
		}},
		{"SubList(0,0)", func(s interface{}, _ at.List, _ at.Object) interface{} { return L(s).SubList(0, 0) }},
		{"Concat(own)", func(s interface{}, own at.List, _ at.Object) interface{} { return L(s).Concat(own) }},
		{"Filter(always)", func(s interface{}, _ at.List, _ at.Object) interface{} {
			return L(s).Filter(func(interface{}) bool { return true })
		}},
		{"Map(identity)", func(s interface{}, _ at.List, _ at.Object) interface{} {
			return L(s).Map(func(_ int, v interface{}) interface{} { return v })
		}},
		{"Slice", func(s interface{}, _ at.List, _ at.Object) interface{} { return L(s).Slice() }},
		{"NativeSlice", func(s interface{}, _ at.List, _ at.Object) interface{} { return L(s).NativeSlice() }},
		{"IndexOf(2)", func(s interface{}, _ at.List, _ at.Object) interface{} { return L(s).IndexOf(2) }},
		{"GetTF(#0)", func(s interface{}, _ at.List, _ at.Object) interface{} { return L(s).GetTF("#0") }},
		{"TypeOfTF(#1)", func(s interface{}, _ at.List, _ at.Object) interface{} { return int(L(s).TypeOfTF("#1")) }},
		{"FormatString(2)", func(s interface{}, _ at.List, _ at.Object) interface{} { return L(s).FormatString(2) }},
		{"Sum+IntSlice", func(s interface{}, _ at.List, _ at.Object) interface{} {
			return fmt.Sprint(L(s).Sum(), L(s).IntSlice())
		}},
	}
}

func objRoOps() []roOp {
	O := func(s interface{}) at.Object { return s.(at.Object) }
	return []roOp{
		{"Get(a)", func(s interface{}, _ at.List, _ at.Object) interface{} { return O(s).Get("a") }},
		{"Count", func(s interface{}, _ at.List, _ at.Object) interface{} { return O(s).Count() }},
		{"TypeOf(b)", func(s interface{}, _ at.List, _ at.Object) interface{} { return int(O(s).TypeOf("b")) }},
		{"String(decoded)", func(s interface{}, _ at.List, _ at.Object) interface{} {
			p, err := at.ParseObject(O(s).String())
			if err != nil {
				return err.Error()
			}
			return p
		}},
		{"Clone", func(s interface{}, _ at.List, _ at.Object) interface{} { return O(s).Clone() }},
		{"Equals(own)", func(s interface{}, _ at.List, own at.Object) interface{} { return O(s).Equals(own) }},
		{"Equals(same keys, one value differs)", func(s interface{}, _ at.List, _ at.Object) interface{} {
			o := at.NewObject()
			last := ""
			O(s).ForEach(func(k string, v interface{}) {
				o.Set(k, v)
				if k > last {
					last = k
				}
			})
			if last != "" {
				o.Set(last, "differs")
			}
			return O(s).Equals(o)
		}},
		{"ForEachAsync(count)", func(s interface{}, _ at.List, _ at.Object) interface{} {
			var n int64
			ret := O(s).ForEachAsync(func(string, interface{}) { atomic.AddInt64(&n, 1) })
			return fmt.Sprintf("%d callbacks, receiver returned: %v", atomic.LoadInt64(&n), ret == O(s))
		}},
		{"MapAsync(identity)", func(s interface{}, _ at.List, _ at.Object) interface{} {
			return O(s).MapAsync(func(_ string, v interface{}) interface{} { return v })
		}},
		{"Keys(sorted)", func(s interface{}, _ at.List, _ at.Object) interface{} {
			ks := O(s).Keys().StringSlice()
			sort.Strings(ks)
			return fmt.Sprint(ks)
		}},
		{"Values(count)", func(s interface{}, _ at.List, _ at.Object) interface{} { return O(s).Values().Count() }},
		{"Dict", func(s interface{}, _ at.List, _ at.Object) interface{} { return O(s).Dict() }},
		{"NativeDict", func(s interface{}, _ at.List, _ at.Object) interface{} { return O(s).NativeDict() }},
		{"Merge(own)", func(s interface{}, _ at.List, own at.Object) interface{} { return O(s).Merge(own) }},
		{"Pluck(a)", func(s interface{}, _ at.List, _ at.Object) interface{} { return O(s).Pluck("a") }},
		{"GetTF(.b#0)", func(s interface{}, _ at.List, _ at.Object) interface{} { return O(s).GetTF(".b#0") }},
		{"TypeOfTF(.a)", func(s interface{}, _ at.List, _ at.Object) interface{} { return int(O(s).TypeOfTF(".a")) }},
		{"Map(identity)", func(s interface{}, _ at.List, _ at.Object) interface{} {
			return O(s).Map(func(_ string, v interface{}) interface{} { return v })
		}},
		{"KeyOf(1)", func(s interface{}, _ at.List, _ at.Object) interface{} { return O(s).KeyOf(1) }},
	}
}

type shape struct {
	Name string
	Mk   func() interface{}
}

func roShapes() []shape {
	return []shape{
		{"list [1,2,3] (spare capacity after NewList)", func() interface{} { return at.NewList(1, 2, 3) }},
		{"list [2,3,4] after Delete(0) (len 3, spare capacity)", func() interface{} { return at.NewList(1, 2, 3, 4).Delete(0) }},
		{"list [[5],{k:1},\"s\",2] (nested containers)", func() interface{} { return at.NewList(at.NewList(5), at.NewObject("k", 1), "s", 2) }},
		{"list [7,2] grown one by one", func() interface{} { return at.NewList().Add(7).Add(2) }},
		{"object {a:1,b:[5],c:{k:2}}", func() interface{} { return at.NewObject("a", 1, "b", at.NewList(5), "c", at.NewObject("k", 2)) }},
	}
}

// privateShape is the write-freedom fingerprint of the shared container (two levels deep): a hash of
// spine pointer, len, cap and the raw words of all cap slots (spare ones included) of every list, and
// of map identity and size of every object.
func privateShape(shared interface{}) uint64 {
	var rec func(v interface{}, depth int) uint64
	rec = func(v interface{}, depth int) uint64 {
		h := uint64(1469598103934665603)
		mix := func(x uint64) {
			h ^= x
			h *= 1099511628211
		}
		switch x := v.(type) {
		case at.List:
			if w, ok := peek.SlotWords(x); ok {
				sp, _ := peek.List(x)
				mix(uint64(sp.Len))
				mix(uint64(sp.Cap))
				mix(uint64(sp.Ptr))
				for _, ww := range w {
					mix(uint64(ww))
				}
			} else {
				mix(7)
			}
			if depth < 2 {
				for i := 0; i < x.Count(); i++ {
					mix(rec(x.Get(i), depth+1))
				}
			}
		case at.Object:
			if p, n, ok := peek.Map(x); ok {
				mix(uint64(n))
				mix(uint64(p))
			} else {
				mix(9)
			}
			if depth < 2 {
				var sum uint64 // children combined commutatively: map iteration order must not matter
				x.ForEachValue(func(e interface{}) { sum += rec(e, depth+1) })
				mix(sum)
			}
		default:
			return 0
		}
		return h
	}
	return rec(shared, 0)
}

type roState struct {
	mu       sync.Mutex
	problems []verdict
	obs      []string
}

func (s *roState) fail(v verdict) {
	s.mu.Lock()
	s.problems = append(s.problems, v)
	s.mu.Unlock()
}

// roScenario: T threads, thread t performs ops[t] (a list of op indices) on the shared container.
func roScenario(sh shape, ops []roOp, plan [][]int, maxBound int) scenario {
	names := make([]string, len(plan))
	for t, p := range plan {
		var ns []string
		for _, i := range p {
			ns = append(ns, ops[i].Name)
		}
		names[t] = strings.Join(ns, ";")
	}
	name := fmt.Sprintf("%s :: %s", sh.Name, strings.Join(names, " || "))
	// expected results of the calls (sequential twin): computed once per scenario and process - the scenario is
	// rebuilt for every execution, the sequential answers of a deterministic library do not change
	var wantCache [][]string
	return scenario{Name: name, Family: "readonly", MaxBound: maxBound, Mk: func() *instance {
		shared := sh.Mk()
		twin := sh.Mk()
		st := &roState{}
		content0 := render(shared)
		shape0 := privateShape(shared)
		type thr struct {
			own    at.List
			ownObj at.Object
			want   []string
		}
		ths := make([]*thr, len(plan))
		for t, p := range plan {
			th := &thr{own: at.NewList(100 + t), ownObj: at.NewObject("own", 100+t, "a", 50+t)}
			// expected results: the same calls made sequentially on a twin
			town, townObj := at.NewList(100+t), at.NewObject("own", 100+t, "a", 50+t)
			if wantCache != nil {
				th.want = wantCache[t]
				ths[t] = th
				continue
			}
			for _, i := range p {
				// the sequential twin runs under the scheduler as well (alone, default schedule): library code that
				// spawns and waits needs its synchronisation to be live
				var w string
				i := i
				rtSeq(func() { w = renderSafe(func() interface{} { return ops[i].F(twin, town, townObj) }) })
				th.want = append(th.want, w)
			}
			ths[t] = th
		}
		if wantCache == nil {
			wantCache = make([][]string, len(ths))
			for t, th := range ths {
				wantCache[t] = th.want
			}
		}
		return &instance{Body: func() {
			var wg rtJoiner
			wg.Add(len(plan))
			for t := range plan {
				t := t
				rtSpawn(func() {
					defer wg.Done()
					th := ths[t]
					for k, i := range plan[t] {
						rtYield()
						before := privateShape(shared)
						var r interface{}
						got := renderSafe(func() interface{} { r = ops[i].F(shared, th.own, th.ownObj); return r })
						after := privateShape(shared)
						if before != after {
							st.fail(verdict{fmt.Sprintf("read-only call %s wrote to the shared container's private storage (spine/map fingerprint changed)", ops[i].Name), "readonly/wrote-shared-storage/" + ops[i].Name})
						}
						if got != th.want[k] {
							st.fail(verdict{fmt.Sprintf("thread %d: %s returned %s, the same call made sequentially returns %s", t, ops[i].Name, got, th.want[k]), "readonly/result-differs/" + ops[i].Name})
						}
						rtYield()
						if later := render(r); later != th.want[k] && got == th.want[k] {
							st.fail(verdict{fmt.Sprintf("thread %d: the result of %s changed after it was returned: %s -> %s (another thread's read-only call modified it)", t, ops[i].Name, got, later), "readonly/result-changed-later/" + ops[i].Name})
						}
					}
				})
			}
			wg.Wait()
		}, Oracle: func(x *execT) verdict {
			if x != nil {
				if x.Diverged != "" {
					return verdict{"schedule replay diverged: " + x.Diverged, "harness/diverged"}
				}
				if x.Deadlock {
					return verdict{"deadlock: " + x.DeadlockAt, "readonly/deadlock"}
				}
				if x.Panic != nil {
					return verdict{fmt.Sprintf("panic in thread %d: %v", x.PanicIn, x.Panic), "readonly/panic"}
				}
			}
			st.mu.Lock()
			defer st.mu.Unlock()
			if len(st.problems) > 0 {
				return st.problems[0]
			}
			if c := render(shared); c != content0 {
				return verdict{fmt.Sprintf("the shared container changed: %s -> %s", content0, c), "readonly/shared-changed"}
			}
			if s := privateShape(shared); s != shape0 {
				return verdict{"the shared container's private storage changed during read-only calls", "readonly/wrote-shared-storage"}
			}
			return verdict{}
		}, Outcome: func() string { return "ok" }}
	}}
}

func renderSafe(f func() interface{}) (s string) {
	defer func() {
		if r := recover(); r != nil {
			s = fmt.Sprintf("panic(%v)", r)
		}
	}()
	return render(f())
}

func readonlyScenarios(thorough bool) []scenario {
	var out []scenario
	shapes := roShapes()
	isAsync := func(o roOp) bool {
		return strings.HasPrefix(o.Name, "ForEachAsync") || strings.HasPrefix(o.Name, "MapAsync")
	}
	for si, sh := range shapes {
		all := listRoOps()
		if si == len(shapes)-1 {
			all = objRoOps()
		}
		// overlapping ASYNC calls on one shared container (each spawns its own workers): every pair of the async
		// operations with each other and with String, on the two-element list and on the object, preemption bound 1 (2 in the thorough tier)
		if si >= len(shapes)-2 {
			var idx []int
			for i, o := range all {
				if isAsync(o) || o.Name == "String" || o.Name == "String(decoded)" {
					idx = append(idx, i)
				}
			}
			for x := 0; x < len(idx); x++ {
				for y := x; y < len(idx); y++ {
					if isAsync(all[idx[x]]) || isAsync(all[idx[y]]) {
						ob := 1
						if thorough {
							ob = 2
						}
						sc := roScenario(sh, all, [][]int{{idx[x]}, {idx[y]}}, ob)
						sc.Name = "[overlapping async calls] " + sc.Name
						out = append(out, sc)
					}
				}
			}
		}
		var ops []roOp
		for _, o := range all {
			if !isAsync(o) {
				ops = append(ops, o)
			}
		}
		// two threads, one call each: every unordered pair of operations
		for i := range ops {
			for j := i; j < len(ops); j++ {
				out = append(out, roScenario(sh, ops, [][]int{{i}, {j}}, 99))
			}
		}
		// two threads, two calls each, over the operations that build new storage
		var storage []int
		for i, o := range ops {
			switch o.Name {
			case "Concat(own)", "SubList(0,0)", "Clone", "String", "Slice", "Merge(own)", "Pluck(a)", "Dict", "Map(identity)":
				storage = append(storage, i)
			}
		}
		for _, a := range storage {
			for _, b := range storage {
				for _, c2 := range storage {
					out = append(out, roScenario(sh, ops, [][]int{{a, b}, {c2, a}}, 99))
				}
			}
		}
		// three threads, one call each
		tri := storage
		if thorough {
			tri = nil
			for i := range ops {
				tri = append(tri, i)
			}
		}
		for x := 0; x < len(tri); x++ {
			for y := x; y < len(tri); y++ {
				for z := y; z < len(tri); z++ {
					out = append(out, roScenario(sh, ops, [][]int{{tri[x]}, {tri[y]}, {tri[z]}}, 99))
				}
			}
		}
	}
	return out
}

// ---------- family (c): two concurrent read-only calls interleaved INSIDE the library ----------
// Same oracle as family (b), but the LibYield points the rewriter put at every function entry and loop
// iteration of the library are scheduling points, explored up to a preemption bound: state shared
// between calls (package-level buffers, caches, lazily built tables) is caught by the explorer itself.
func fineScenarios(bound int) []scenario {
	var out []scenario
	shapes := []shape{
		{"list [\"s\",{k:\"v\"},[1,\"t\"],2.5] (strings at three depths)", func() interface{} {
			return at.NewList("s", at.NewObject("k", "v"), at.NewList(1, "t"), 2.5)
		}},
		{"object {a:\"x\",b:[\"y\"]}", func() interface{} { return at.NewObject("a", "x", "b", at.NewList("y")) }},
	}
	pick := func(ops []roOp, names ...string) []int {
		var idx []int
		for _, n := range names {
			for i, o := range ops {
				if o.Name == n {
					idx = append(idx, i)
				}
			}
		}
		return idx
	}
	for si, sh := range shapes {
		ops := listRoOps()
		sel := pick(ops, "String", "FormatString(2)", "Clone", "Equals(own)", "Equals(same length, differs at the end)", "Equals(equal copy)", "Concat(own)", "SubList(0,0)", "Slice", "NativeSlice", "GetTF(#0)", "Filter(always)", "Map(identity)", "Sum+IntSlice")
		if si == 1 {
			ops = objRoOps()
			sel = pick(ops, "String(decoded)", "Clone", "Equals(own)", "Keys(sorted)", "Dict", "NativeDict", "Merge(own)", "Pluck(a)", "GetTF(.b#0)", "Map(identity)")
		}
		for x := 0; x < len(sel); x++ {
			for y := x; y < len(sel); y++ {
				sc := roScenario(sh, ops, [][]int{{sel[x]}, {sel[y]}}, bound)
				sc.Family, sc.Fine = "fine", true
				sc.Name = "[library-internal yields] " + sc.Name
				out = append(out, sc)
			}
		}
	}
	return out
}

// ---------- family (a'): larger containers under different GOMAXPROCS settings ----------
// All interleavings are out of reach for 4..17 workers; these scenarios are explored up to a small
// DELAY bound (every departure from the default schedule costs 1). They exist because the number of elements and GOMAXPROCS are inputs of the async
// code (batching, chunking, worker pools would depend on them): the exactly-once / completion-barrier
// oracle must hold for every size and every GOMAXPROCS value.
func asyncLargeScenarios(bound int) []scenario {
	var out []scenario
	for _, n := range []int{4, 5, 9, 17} {
		for _, gmp := range []int{1, 2, 4} {
			n, gmp := n, gmp
			for _, kind := range []string{"list.ForEachAsync", "list.MapAsync", "object.ForEachAsync", "object.MapAsync"} {
				kind := kind
				out = append(out, scenario{Name: fmt.Sprintf("%s n=%d GOMAXPROCS=%d", kind, n, gmp), Family: "async-large", MaxBound: bound, Delay: true, Mk: func() *instance {
					runtime.GOMAXPROCS(gmp)
					st := &asyncState{starts: map[string]int{}, ends: map[string]int{}}
					want := map[string]bool{}
					vals := make([]interface{}, n)
					keys := make([]string, n)
					for i := range vals {
						vals[i] = i * 10
						keys[i] = fmt.Sprintf("k%02d", i)
					}
					var body func()
					isMap := strings.HasSuffix(kind, "MapAsync")
					if strings.HasPrefix(kind, "list") {
						l, twin := at.NewList(vals...), at.NewList(vals...)
						for i, v := range vals {
							want[fmt.Sprint(i)+"="+ident(v)] = true
						}
						body = func() {
							var ok bool
							var msg string
							if isMap {
								res := l.MapAsync(func(i int, v interface{}) interface{} {
									st.add("s", fmt.Sprint(i), v)
									rtYield()
									st.add("e", fmt.Sprint(i), v)
									return tagKV(fmt.Sprint(i), v)
								})
								exp := twin.Map(func(i int, v interface{}) interface{} { return tagKV(fmt.Sprint(i), v) })
								ok = res != nil && res != l && res.Equals(exp)
								if !ok {
									msg = fmt.Sprintf("MapAsync returned %s, Map returns %s", safeStr(res), exp.String())
								}
							} else {
								ret := l.ForEachAsync(func(i int, v interface{}) {
									st.add("s", fmt.Sprint(i), v)
									rtYield()
									st.add("e", fmt.Sprint(i), v)
								})
								ok = ret == l
							}
							e := st.endCount()
							st.mu.Lock()
							st.endsAtReturn, st.returned, st.retSame, st.resOK = e, true, ok, msg
							st.mu.Unlock()
						}
					} else {
						o, twin := at.NewObject(), at.NewObject()
						for i, k := range keys {
							o.Set(k, vals[i])
							twin.Set(k, vals[i])
							want[k+"="+ident(vals[i])] = true
						}
						body = func() {
							var ok bool
							var msg string
							if isMap {
								res := o.MapAsync(func(k string, v interface{}) interface{} {
									st.add("s", k, v)
									rtYield()
									st.add("e", k, v)
									return tagKV(k, v)
								})
								exp := twin.Map(func(k string, v interface{}) interface{} { return tagKV(k, v) })
								ok = res != nil && res != o && res.Equals(exp)
								if !ok {
									msg = "MapAsync result differs from Map"
								}
							} else {
								ret := o.ForEachAsync(func(k string, v interface{}) {
									st.add("s", k, v)
									rtYield()
									st.add("e", k, v)
								})
								ok = ret == o
							}
							e := st.endCount()
							st.mu.Lock()
							st.endsAtReturn, st.returned, st.retSame, st.resOK = e, true, ok, msg
							st.mu.Unlock()
						}
					}
					return &instance{Body: body, Oracle: asyncOracle(st, fmt.Sprintf("%s on %d entries with GOMAXPROCS=%d", kind, n, gmp), want, n, isMap),
						Outcome: func() string { st.mu.Lock(); defer st.mu.Unlock(); return strings.Join(stripPtr(st.log), " ") }}
				}})
			}
		}
	}
	return out
}
