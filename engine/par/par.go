// Package par holds the parallel drivers: streaming producer -> workers, and index ranges.
package par

import (
	"sync"
	"sync/atomic"
)

// Stream runs gen in one goroutine; every emitted item is processed by exactly one of
// `workers` goroutines. stop() (may be nil) is polled by the producer side via the
// returned bool of emit: emit returns false once stop() is true, so generators can unwind.
func Stream[T any](workers int, stop func() bool, gen func(emit func(T) bool), work func(w int, item T)) {
	const chunk = 256
	ch := make(chan []T, workers*4)
	var wg sync.WaitGroup
	for w := 0; w < workers; w++ {
		wg.Add(1)
		go func(w int) {
			defer wg.Done()
			for items := range ch {
				for _, it := range items {
					work(w, it)
				}
			}
		}(w)
	}
	buf := make([]T, 0, chunk)
	stopped := false
	n := 0
	emit := func(it T) bool {
		if stopped {
			return false
		}
		buf = append(buf, it)
		if len(buf) == chunk {
			ch <- buf
			buf = make([]T, 0, chunk)
			n++
			if stop != nil && n%16 == 0 && stop() {
				stopped = true
				return false
			}
		}
		return true
	}
	gen(emit)
	if len(buf) > 0 {
		ch <- buf
	}
	close(ch)
	wg.Wait()
}

// Range processes indices 0..n-1 on `workers` goroutines in blocks; stop is polled per block.
// It returns the number of indices actually processed (== n unless stopped).
func Range(workers int, n int64, block int64, stop func() bool, work func(w int, i int64)) int64 {
	var next int64
	var done int64
	var wg sync.WaitGroup
	for w := 0; w < workers; w++ {
		wg.Add(1)
		go func(w int) {
			defer wg.Done()
			for {
				if stop != nil && stop() {
					return
				}
				lo := atomic.AddInt64(&next, block) - block
				if lo >= n {
					return
				}
				hi := lo + block
				if hi > n {
					hi = n
				}
				for i := lo; i < hi; i++ {
					work(w, i)
				}
				atomic.AddInt64(&done, hi-lo)
			}
		}(w)
	}
	wg.Wait()
	return done
}
