// Package bfs is the explicit-state explorer: level-synchronous breadth-first search over
// operation sequences executed on the real code. Live containers cannot be cloned behind
// the library's back, so a successor state is produced by replaying the operation path on a
// fresh instance and applying one more operation. Operations are small descriptors that
// are re-applied directly on replay (no re-enumeration). States are deduplicated by a
// canonical key supplied by the system (model heap + implementation-private shape).
package bfs

import (
	"fmt"
	"sync"
	"sync/atomic"

	"verif/ev"
)

// System describes one scenario over states S and operation descriptors O.
type System[S any, O any] struct {
	Name string
	// Inits are the initial-state constructors (each call must build a completely fresh state).
	Inits []func() S
	// Ops lists the enabled operations of a state (a deterministic function of the model content).
	Ops func(s S) []O
	// Apply executes one operation on the implementation and on the model inside s and returns
	// ("","") or a violation (message, signature).
	Apply func(s S, o O) (msg, sig string)
	// Label renders an operation for traces.
	Label func(o O) string
	// Check observes the whole state through the public API and compares with the model.
	Check func(s S) (msg, sig string)
	// Key is the canonical state key.
	Key      func(s S) string
	MaxDepth int
	// Describe renders a state for samples (optional).
	Describe func(s S) string
	// Touch (optional) is called after every operation of a replayed path: cheap observer calls whose
	// possible side effects on hidden state (caches kept by serialisers etc.) thereby become part of
	// every explored history, although replays skip the full observation.
	Touch func(s S)
}

type node[O any] struct {
	parent *node[O]
	op     O
	init   int
	depth  int
}

type Result struct {
	States         int64
	DepthCompleted int
	Exhausted      bool // the reachable state space closed before MaxDepth
}

type visited struct {
	sh [256]struct {
		mu sync.Mutex
		m  map[uint64]struct{}
	}
}

func (v *visited) add(h uint64) bool {
	s := &v.sh[h&255]
	s.mu.Lock()
	if s.m == nil {
		s.m = map[uint64]struct{}{}
	}
	_, ok := s.m[h]
	if !ok {
		s.m[h] = struct{}{}
	}
	s.mu.Unlock()
	return !ok
}

func pathOf[O any](n *node[O]) (init int, ops []O) {
	ops = make([]O, n.depth)
	for x := n; x != nil && x.depth > 0; x = x.parent {
		ops[x.depth-1] = x.op
	}
	for x := n; x != nil; x = x.parent {
		init = x.init
	}
	return
}

// replay rebuilds the state reached by a path.
func replay[S any, O any](sys *System[S, O], init int, ops []O) (S, string) {
	s := sys.Inits[init]()
	for i, o := range ops {
		o := o
		if msg, _ := guard(func() (string, string) { return sys.Apply(s, o) }); msg != "" {
			return s, fmt.Sprintf("replay divergence at step %d (%s): a transition that was clean before now reports: %s", i, sys.Label(o), msg)
		}
		if sys.Touch != nil {
			sys.Touch(s)
		}
	}
	return s, ""
}

func labels[S any, O any](sys *System[S, O], ops []O) []string {
	out := make([]string, len(ops))
	for i, o := range ops {
		out[i] = sys.Label(o)
	}
	return out
}

// guard runs one step of the system and turns a panic of the HARNESS code (model bookkeeping that could not follow
// what the library did: a container missing where the replayed path had one, an index past a shortened model
// list) into a violation candidate instead of a crash. On a deterministic, correct library a replayed path never
// behaves differently from its first execution, so such a panic is a symptom of the code under test; like every
// candidate it is re-executed five times before it is reported.
func guard(f func() (string, string)) (msg, sig string) {
	defer func() {
		if r := recover(); r != nil {
			msg, sig = fmt.Sprintf("the harness could not follow the library (the state reached by replaying a recorded path differs from the state in which the operation was enabled): %v", r), "replay-nondeterminism"
		}
	}()
	return f()
}

// Run explores the system and reports violations into c.
func Run[S any, O any](c *ev.Ctx, sys *System[S, O]) Result {
	var vis visited
	var res Result
	var frontier []*node[O]
	for i, mk := range sys.Inits {
		s := mk()
		if msg, sig := sys.Check(s); msg != "" {
			c.Violate(ev.Violation{Sig: sys.Name + "/init/" + sig, Msg: msg, Witness: map[string]interface{}{"scenario": sys.Name, "init": i}}, nil)
			continue
		}
		if vis.add(ev.Hash(sys.Key(s))) {
			frontier = append(frontier, &node[O]{init: i})
			res.States++
		}
	}
	c.AddStates(int(res.States))
	for depth := 0; depth < sys.MaxDepth && len(frontier) > 0; depth++ {
		var next []*node[O]
		var mu sync.Mutex
		var idx int64 = -1
		var wg sync.WaitGroup
		var cut int32
		for w := 0; w < c.Workers; w++ {
			wg.Add(1)
			go func() {
				defer wg.Done()
				var local []*node[O]
				for {
					i := atomic.AddInt64(&idx, 1)
					if i >= int64(len(frontier)) {
						break
					}
					if c.Expired() || c.TooMany() {
						atomic.StoreInt32(&cut, 1)
						break
					}
					n := frontier[i]
					init, path := pathOf(n)
					diverged := func(div string) {
						trace := labels(sys, path)
						c.Violate(ev.Violation{Sig: sys.Name + "/replay-nondeterminism", Msg: fmt.Sprintf("[%s] replaying %v: %s - the library does not behave the same way on every execution of one operation sequence", sys.Name, trace, div),
							Witness: map[string]interface{}{"scenario": sys.Name, "init": init, "operations": trace}}, func() string {
							if _, d := replay(sys, init, path); d != "" {
								return sys.Name + "/replay-nondeterminism"
							}
							return ""
						})
					}
					s0, div := replay(sys, init, path)
					if div != "" {
						diverged(div)
						continue
					}
					var enabled []O
					if m, _ := guard(func() (string, string) { enabled = sys.Ops(s0); return "", "" }); m != "" {
						diverged(m)
						continue
					}
					for _, op := range enabled {
						s, div := replay(sys, init, path)
						if div != "" {
							diverged(div)
							break
						}
						op := op
						msg, sig := guard(func() (string, string) { return sys.Apply(s, op) })
						if msg == "" {
							msg, sig = guard(func() (string, string) { return sys.Check(s) })
						}
						c.AddTrans(1)
						if msg != "" {
							full := append(append([]O{}, path...), op)
							trace := labels(sys, full)
							fsig := sys.Name + "/" + sig
							c.Violate(ev.Violation{Sig: fsig, Msg: fmt.Sprintf("[%s] after %v: %s", sys.Name, trace, msg),
								Witness: map[string]interface{}{"scenario": sys.Name, "init": init, "operations": trace}}, func() string {
								s := sys.Inits[init]()
								for j, o := range full {
									o := o
									m, sg := guard(func() (string, string) { return sys.Apply(s, o) })
									if sys.Touch != nil && j < len(full)-1 {
										sys.Touch(s)
									}
									if j == len(full)-1 {
										if m == "" {
											m, sg = guard(func() (string, string) { return sys.Check(s) })
										}
										if m == "" {
											return ""
										}
										return sys.Name + "/" + sg
									}
									if m != "" {
										return "divergence"
									}
								}
								return ""
							})
							continue
						}
						if vis.add(ev.Hash(sys.Key(s))) {
							nn := &node[O]{parent: n, op: op, init: init, depth: n.depth + 1}
							local = append(local, nn)
							if sys.Describe != nil {
								c.SampleTag(sys.Name, func() interface{} {
									return map[string]interface{}{"scenario": sys.Name, "operations": labels(sys, append(append([]O{}, path...), op)), "state": sys.Describe(s)}
								})
							}
						}
					}
				}
				mu.Lock()
				next = append(next, local...)
				mu.Unlock()
			}()
		}
		wg.Wait()
		c.AddStates(len(next))
		res.States += int64(len(next))
		if atomic.LoadInt32(&cut) == 1 {
			c.Cut(fmt.Sprintf("%s: depth %d not completed (deadline or violation cap); all shallower depths complete", sys.Name, depth+1))
			res.DepthCompleted = depth
			return res
		}
		res.DepthCompleted = depth + 1
		frontier = next
	}
	res.Exhausted = len(frontier) == 0
	return res
}
