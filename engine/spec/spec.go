// Package spec defines specification values (plain immutable trees the generators build
// containers from), the exhaustive tree enumerator, the builder that turns a
// specification into a real anytype container through the public API, and the
// independent walker that compares a real container with a specification.
package spec

import (
	"fmt"
	"math"
	"sort"
	"strconv"
	"strings"

	at "github.com/DanielSvub/anytype"
)

type Kind uint8

const (
	Nil Kind = iota
	Bool
	Int
	Float
	Str
	Lst
	Obj
)

func (k Kind) String() string {
	return [...]string{"nil", "bool", "int", "float", "string", "list", "object"}[k]
}

// Type is the anytype kind a spec kind must be reported as.
func (k Kind) Type() at.Type {
	return [...]at.Type{at.TypeNil, at.TypeBool, at.TypeInt, at.TypeFloat, at.TypeString, at.TypeList, at.TypeObject}[k]
}

type KV struct {
	K string
	V *V
}

// V is a specification value. Values are immutable once built and may share subtrees.
type V struct {
	K  Kind
	B  bool
	I  int
	F  float64
	S  string
	L  []*V
	KV []KV // object fields; keys distinct; order = insertion order used by Build
	n  int  // node count cache
	d  int  // depth cache
}

var NilV = &V{K: Nil, n: 1, d: 1}

func B(b bool) *V         { return &V{K: Bool, B: b, n: 1, d: 1} }
func I(i int) *V          { return &V{K: Int, I: i, n: 1, d: 1} }
func F(f float64) *V      { return &V{K: Float, F: f, n: 1, d: 1} }
func S(s string) *V       { return &V{K: Str, S: s, n: 1, d: 1} }
func L(e ...*V) *V        { v := &V{K: Lst, L: e}; v.fix(); return v }
func O(kv ...KV) *V       { v := &V{K: Obj, KV: kv}; v.fix(); return v }
func P(k string, v *V) KV { return KV{k, v} }

func (v *V) fix() {
	v.n, v.d = 1, 1
	for _, e := range v.L {
		v.n += e.n
		if e.d+1 > v.d {
			v.d = e.d + 1
		}
	}
	for _, e := range v.KV {
		v.n += e.V.n
		if e.V.d+1 > v.d {
			v.d = e.V.d + 1
		}
	}
}

func (v *V) Nodes() int        { return v.n }
func (v *V) Depth() int        { return v.d }
func (v *V) IsContainer() bool { return v.K == Lst || v.K == Obj }

// Field returns the spec of key k of an object spec.
func (v *V) Field(k string) *V {
	for _, e := range v.KV {
		if e.K == k {
			return e.V
		}
	}
	return nil
}

// String renders the spec as a compact Go-ish literal (for messages and samples).
func (v *V) String() string {
	var sb strings.Builder
	v.render(&sb)
	return sb.String()
}

func (v *V) render(sb *strings.Builder) {
	switch v.K {
	case Nil:
		sb.WriteString("nil")
	case Bool:
		sb.WriteString(strconv.FormatBool(v.B))
	case Int:
		sb.WriteString("int(" + strconv.Itoa(v.I) + ")")
	case Float:
		sb.WriteString("float(" + strconv.FormatFloat(v.F, 'g', -1, 64) + "/0x" + strconv.FormatUint(math.Float64bits(v.F), 16) + ")")
	case Str:
		sb.WriteString(strconv.QuoteToASCII(v.S))
	case Lst:
		sb.WriteString("[")
		for i, e := range v.L {
			if i > 0 {
				sb.WriteString(", ")
			}
			e.render(sb)
		}
		sb.WriteString("]")
	case Obj:
		sb.WriteString("{")
		for i, e := range v.KV {
			if i > 0 {
				sb.WriteString(", ")
			}
			sb.WriteString(strconv.QuoteToASCII(e.K) + ": ")
			e.V.render(sb)
		}
		sb.WriteString("}")
	}
}

// Native returns the plain Go value a scalar spec stands for.
func (v *V) Native() interface{} {
	switch v.K {
	case Nil:
		return nil
	case Bool:
		return v.B
	case Int:
		return v.I
	case Float:
		return v.F
	case Str:
		return v.S
	case Lst:
		out := make([]interface{}, len(v.L))
		for i, e := range v.L {
			out[i] = e.Native()
		}
		return out
	default:
		out := make(map[string]interface{}, len(v.KV))
		for _, e := range v.KV {
			out[e.K] = e.V.Native()
		}
		return out
	}
}

// Build constructs the real value through the public API: scalars as Go values,
// lists by NewList+Add, objects by NewObject+Set in KV order. Every call builds
// fresh containers (no sharing between calls).
func (v *V) Build() interface{} {
	switch v.K {
	case Lst:
		l := at.NewList()
		for _, e := range v.L {
			l.Add(e.Build())
		}
		return l
	case Obj:
		o := at.NewObject()
		for _, e := range v.KV {
			o.Set(e.K, e.V.Build())
		}
		return o
	default:
		return v.Native()
	}
}

// BuildShared is Build, except that specification nodes that are the identical *V (the enumerator
// shares equal subtrees) become the identical real container: the result is an acyclic graph in
// which one container may be referenced from several places.
func (v *V) BuildShared() interface{} { return v.buildShared(map[*V]interface{}{}) }

func (v *V) buildShared(memo map[*V]interface{}) interface{} {
	if !v.IsContainer() {
		return v.Native()
	}
	if r, ok := memo[v]; ok {
		return r
	}
	var out interface{}
	if v.K == Lst {
		l := at.NewList()
		for _, e := range v.L {
			l.Add(e.buildShared(memo))
		}
		out = l
	} else {
		o := at.NewObject()
		for _, e := range v.KV {
			o.Set(e.K, e.V.buildShared(memo))
		}
		out = o
	}
	memo[v] = out
	return out
}

func (v *V) BuildList() at.List     { return v.Build().(at.List) }
func (v *V) BuildObject() at.Object { return v.Build().(at.Object) }

// Equal is the reference structural, kind-strict equality on specifications (floats by ==,
// object keys order-insensitive).
func Equal(a, b *V) bool {
	if a.K != b.K {
		return false
	}
	switch a.K {
	case Nil:
		return true
	case Bool:
		return a.B == b.B
	case Int:
		return a.I == b.I
	case Float:
		return a.F == b.F
	case Str:
		return a.S == b.S
	case Lst:
		if len(a.L) != len(b.L) {
			return false
		}
		for i := range a.L {
			if !Equal(a.L[i], b.L[i]) {
				return false
			}
		}
		return true
	default:
		if len(a.KV) != len(b.KV) {
			return false
		}
		for _, e := range a.KV {
			o := b.Field(e.K)
			if o == nil || !Equal(e.V, o) {
				return false
			}
		}
		return true
	}
}

// MatchOpt tunes Match.
type MatchOpt struct {
	FloatBits bool // compare floats by bit pattern instead of ==
}

// Match walks a real value with the public API only and compares it with the spec.
// It returns "" when they agree, otherwise a description of the first difference.
func Match(real interface{}, v *V) string { return match(real, v, "$", MatchOpt{}) }

func MatchWith(real interface{}, v *V, o MatchOpt) string { return match(real, v, "$", o) }

func match(real interface{}, v *V, path string, o MatchOpt) (res string) {
	defer func() {
		if r := recover(); r != nil {
			res = fmt.Sprintf("%s: panic while walking: %v", path, r)
		}
	}()
	switch v.K {
	case Nil:
		if real != nil {
			return fmt.Sprintf("%s: want nil, got %T(%v)", path, real, real)
		}
	case Bool:
		b, ok := real.(bool)
		if !ok || b != v.B {
			return fmt.Sprintf("%s: want bool %v, got %T(%v)", path, v.B, real, real)
		}
	case Int:
		i, ok := real.(int)
		if !ok || i != v.I {
			return fmt.Sprintf("%s: want int %d, got %T(%v)", path, v.I, real, real)
		}
	case Float:
		f, ok := real.(float64)
		if ok && math.IsNaN(f) && math.IsNaN(v.F) {
			break // a NaN is a NaN: payload bits are not part of any statement
		}
		if !ok || f != v.F || (o.FloatBits && math.Float64bits(f) != math.Float64bits(v.F)) {
			return fmt.Sprintf("%s: want float64 %v, got %T(%v)", path, v.F, real, real)
		}
	case Str:
		s, ok := real.(string)
		if !ok || s != v.S {
			return fmt.Sprintf("%s: want string %q, got %T(%q)", path, v.S, real, real)
		}
	case Lst:
		l, ok := real.(at.List)
		if !ok || l == nil {
			return fmt.Sprintf("%s: want List, got %T", path, real)
		}
		if l.Count() != len(v.L) {
			return fmt.Sprintf("%s: want list of %d, got Count()=%d (%s)", path, len(v.L), l.Count(), l.String())
		}
		for i, e := range v.L {
			if t := l.TypeOf(i); t != e.K.Type() {
				return fmt.Sprintf("%s#%d: want kind %s, TypeOf=%d", path, i, e.K, t)
			}
			if m := match(l.Get(i), e, path+"#"+strconv.Itoa(i), o); m != "" {
				return m
			}
		}
	case Obj:
		ob, ok := real.(at.Object)
		if !ok || ob == nil {
			return fmt.Sprintf("%s: want Object, got %T", path, real)
		}
		if ob.Count() != len(v.KV) {
			return fmt.Sprintf("%s: want object of %d fields, got Count()=%d (%s)", path, len(v.KV), ob.Count(), ob.String())
		}
		keys := ob.Keys()
		if keys.Count() != len(v.KV) {
			return fmt.Sprintf("%s: Keys().Count()=%d, want %d", path, keys.Count(), len(v.KV))
		}
		for _, e := range v.KV {
			if !ob.KeyExists(e.K) {
				return fmt.Sprintf("%s: key %q missing (%s)", path, e.K, ob.String())
			}
			if !keys.Contains(e.K) {
				return fmt.Sprintf("%s: Keys() lacks %q", path, e.K)
			}
			if t := ob.TypeOf(e.K); t != e.V.K.Type() {
				return fmt.Sprintf("%s.%s: want kind %s, TypeOf=%d", path, e.K, e.V.K, t)
			}
			if m := match(ob.Get(e.K), e.V, path+"."+e.K, o); m != "" {
				return m
			}
		}
	}
	return ""
}

// Enum enumerates value trees.
type Enum struct {
	Leaves []*V
	Keys   []string
	// memo[n][d] = all values (leaves and containers) with exactly n nodes and depth <= d
	memo map[[2]int][]*V
}

func NewEnum(leaves []*V, keys []string) *Enum {
	k := append([]string(nil), keys...)
	return &Enum{Leaves: leaves, Keys: k, memo: map[[2]int][]*V{}}
}

// values returns every value with exactly n nodes and depth <= d (memoised, shared subtrees).
func (e *Enum) values(n, d int) []*V {
	if n < 1 || d < 1 {
		return nil
	}
	key := [2]int{n, d}
	if r, ok := e.memo[key]; ok {
		return r
	}
	var out []*V
	if n == 1 {
		out = append(out, e.Leaves...)
	}
	e.containers(n, d, func(v *V) bool { out = append(out, v); return true })
	e.memo[key] = out
	return out
}

// containers streams every container (list or object root) with exactly n nodes, depth <= d.
func (e *Enum) containers(n, d int, emit func(*V) bool) bool {
	if d < 1 || n < 1 {
		return true
	}
	// children sequences with total n-1 nodes, each of depth <= d-1
	ok := true
	e.seqs(n-1, d-1, nil, func(ch []*V) bool {
		cp := append([]*V(nil), ch...)
		if !emit(L(cp...)) {
			ok = false
			return false
		}
		// objects: choose len(ch) distinct keys (combinations in key-set order)
		if len(ch) <= len(e.Keys) {
			if !e.combos(len(ch), func(keys []string) bool {
				kv := make([]KV, len(ch))
				for i := range ch {
					kv[i] = KV{keys[i], cp[i]}
				}
				return emit(O(kv...))
			}) {
				ok = false
				return false
			}
		}
		return true
	})
	return ok
}

func (e *Enum) combos(k int, f func([]string) bool) bool {
	idx := make([]int, k)
	keys := make([]string, k)
	var rec func(pos, from int) bool
	rec = func(pos, from int) bool {
		if pos == k {
			for i, x := range idx {
				keys[i] = e.Keys[x]
			}
			return f(keys)
		}
		for x := from; x < len(e.Keys); x++ {
			idx[pos] = x
			if !rec(pos+1, x+1) {
				return false
			}
		}
		return true
	}
	return rec(0, 0)
}

// seqs streams all ordered sequences of values whose node counts add up to total.
func (e *Enum) seqs(total, d int, prefix []*V, emit func([]*V) bool) bool {
	if total == 0 {
		return emit(prefix)
	}
	if d < 1 {
		return true
	}
	for first := 1; first <= total; first++ {
		for _, v := range e.values(first, d) {
			if !e.seqs(total-first, d, append(prefix, v), emit) {
				return false
			}
		}
	}
	return true
}

// Containers streams every list/object-rooted tree with at most maxNodes nodes and depth <= maxDepth.
// Object children are assigned key combinations in key-set order (insertion order = key-set order).
func (e *Enum) Containers(maxNodes, maxDepth int, emit func(*V) bool) {
	for n := 1; n <= maxNodes; n++ {
		if !e.containers(n, maxDepth, emit) {
			return
		}
	}
}

// Count returns how many trees Containers(maxNodes,maxDepth) yields.
func (e *Enum) Count(maxNodes, maxDepth int) int {
	c := 0
	e.Containers(maxNodes, maxDepth, func(*V) bool { c++; return true })
	return c
}

// All collects Containers into a slice.
func (e *Enum) All(maxNodes, maxDepth int) []*V {
	var out []*V
	e.Containers(maxNodes, maxDepth, func(v *V) bool { out = append(out, v); return true })
	return out
}

// SortedKeys returns the keys of an object spec sorted.
func (v *V) SortedKeys() []string {
	ks := make([]string, len(v.KV))
	for i, e := range v.KV {
		ks[i] = e.K
	}
	sort.Strings(ks)
	return ks
}
