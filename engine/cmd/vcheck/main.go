// vcheck <ID> quick|thorough : runs the model-checking harness of one property against the
// anytype package this binary was built with (the current working tree of the repository).
package main

import (
	"fmt"
	"os"
	"runtime/pprof"
	"sort"

	"verif/checks"
	"verif/ev"
)

func main() {
	if len(os.Args) < 3 {
		ids := []string{}
		for id := range checks.Registry {
			ids = append(ids, id)
		}
		sort.Strings(ids)
		fmt.Println("usage: vcheck <ID> quick|thorough   ids:", ids)
		os.Exit(2)
	}
	id, tier := os.Args[1], os.Args[2]
	ch, ok := checks.Registry[id]
	if !ok {
		fmt.Println("unknown check", id)
		os.Exit(2)
	}
	if tier != "quick" && tier != "thorough" {
		fmt.Println("tier must be quick or thorough")
		os.Exit(2)
	}
	root := os.Getenv("VERIF_ROOT")
	if root == "" {
		root = "/verif"
	}
	c := ev.New(id, tier, ch.Level, root)
	if pf := os.Getenv("VERIF_CPUPROFILE"); pf != "" {
		f, _ := os.Create(pf)
		pprof.StartCPUProfile(f)
		ch.Run(c)
		pprof.StopCPUProfile()
		f.Close()
		os.Exit(c.Finish())
	}
	ch.Run(c)
	os.Exit(c.Finish())
}
