// Package peek reads implementation-private shape facts of anytype containers from the
// outside via reflection (no change to the repository): len/cap/base pointer of a list's
// spine and the size/identity of an object's map. These facts feed state keys (so that
// merging states in the explicit-state search is sound) and the write-freedom invariant
// of C15; they are never the verdict of a behavioural property. If the private layout
// changes, ok=false is returned and callers degrade (no merging on shape / invariant
// reported as unavailable).
package peek

import (
	"reflect"
	"unsafe"
)

type Spine struct {
	Len, Cap int
	Ptr      uintptr
	p        unsafe.Pointer
}

// concrete walks through embedding wrappers (derived types embedding the interface) to the *list / *object.
func concrete(v interface{}) reflect.Value {
	rv := reflect.ValueOf(v)
	for i := 0; i < 16; i++ {
		if rv.Kind() == reflect.Interface || rv.Kind() == reflect.Ptr {
			if rv.IsNil() {
				return reflect.Value{}
			}
			rv = rv.Elem()
			continue
		}
		if rv.Kind() == reflect.Struct {
			if f := rv.FieldByName("val"); f.IsValid() && (f.Kind() == reflect.Slice || f.Kind() == reflect.Map) {
				break
			}
			// a user type embedding the List/Object interface (or a pointer to such a type): descend
			found := false
			for j := 0; j < rv.NumField(); j++ {
				if rv.Type().Field(j).Anonymous && (rv.Field(j).Kind() == reflect.Interface || rv.Field(j).Kind() == reflect.Ptr) {
					rv, found = rv.Field(j), true
					break
				}
			}
			if found {
				continue
			}
		}
		break
	}
	return rv
}

// List returns the spine shape of a list handle.
func List(l interface{}) (s Spine, ok bool) {
	defer func() {
		if recover() != nil {
			ok = false
		}
	}()
	rv := concrete(l)
	if !rv.IsValid() || rv.Kind() != reflect.Struct {
		return s, false
	}
	f := rv.FieldByName("val")
	if !f.IsValid() || f.Kind() != reflect.Slice {
		return s, false
	}
	return Spine{f.Len(), f.Cap(), f.Pointer(), f.UnsafePointer()}, true
}

// SlotWords returns the raw words of all cap slots of the spine (each slot is a 2-word
// interface value), including the spare ones beyond len. Used only for the C15
// write-freedom invariant: equal before/after means nobody wrote to the spine.
func SlotWords(l interface{}) (words []uintptr, ok bool) {
	defer func() {
		if recover() != nil {
			ok = false
		}
	}()
	s, ok := List(l)
	if !ok {
		return nil, false
	}
	if s.Cap == 0 || s.p == nil {
		return nil, true
	}
	n := s.Cap * 2
	src := unsafe.Slice((*uintptr)(s.p), n)
	words = make([]uintptr, n)
	copy(words, src)
	return words, true
}

// Map returns the identity pointer and length of an object's map.
func Map(o interface{}) (ptr uintptr, n int, ok bool) {
	defer func() {
		if recover() != nil {
			ok = false
		}
	}()
	rv := concrete(o)
	if !rv.IsValid() || rv.Kind() != reflect.Struct {
		return 0, 0, false
	}
	f := rv.FieldByName("val")
	if !f.IsValid() || f.Kind() != reflect.Map {
		return 0, 0, false
	}
	return f.Pointer(), f.Len(), true
}

// Spare renders the contents of the spare slots (between len and cap) of a list's spine: stale
// elements left behind by Delete/Pop. Correct code never reads them, but code that re-slices
// into its capacity does, so they are part of the private state a sound state key must contain.
func Spare(l interface{}) (out string, ok bool) {
	defer func() {
		if recover() != nil {
			out, ok = "", false
		}
	}()
	rv := concrete(l)
	if !rv.IsValid() || rv.Kind() != reflect.Struct {
		return "", false
	}
	f := rv.FieldByName("val")
	if !f.IsValid() || f.Kind() != reflect.Slice {
		return "", false
	}
	if f.Cap() == f.Len() {
		return "", true
	}
	full := f.Slice3(0, f.Cap(), f.Cap())
	b := make([]byte, 0, 16)
	for i := f.Len(); i < f.Cap(); i++ {
		e := full.Index(i)
		if e.IsNil() {
			b = append(b, '_')
			continue
		}
		p := e.Elem() // pointer to the field implementation
		if p.Kind() == reflect.Ptr && !p.IsNil() {
			s := p.Elem()
			if s.Kind() == reflect.Struct && s.NumField() == 1 {
				v := s.Field(0)
				switch v.Kind() {
				case reflect.Int:
					b = append(b, 'i')
					b = append(b, []byte(itoa(v.Int()))...)
				case reflect.Float64:
					b = append(b, 'f')
					b = append(b, []byte(itoa(int64(v.Float()*4)))...)
				case reflect.String:
					b = append(b, 's')
					b = append(b, []byte(v.String())...)
				case reflect.Bool:
					if v.Bool() {
						b = append(b, 'T')
					} else {
						b = append(b, 'F')
					}
				default:
					b = append(b, '?')
				}
			} else if s.Kind() == reflect.Struct && s.NumField() == 0 {
				b = append(b, 'n')
			} else {
				b = append(b, 'c')
			}
		} else {
			b = append(b, 'c')
		}
		b = append(b, ',')
	}
	return string(b), true
}

func itoa(i int64) string {
	if i == 0 {
		return "0"
	}
	neg := i < 0
	if neg {
		i = -i
	}
	var buf [24]byte
	n := len(buf)
	for i > 0 {
		n--
		buf[n] = byte('0' + i%10)
		i /= 10
	}
	if neg {
		n--
		buf[n] = '-'
	}
	return string(buf[n:])
}
