// Package peek reads implementation-private shape facts of anytype containers from the
// outside via reflection (no change to the repository): len/cap/base pointer of a list's
// spine and the size/identity of an object's map. These facts feed state keys (so that
// merging states in the explicit-state search is sound) and the write-freedom invariant
// of C15; they are never the verdict of a behavioural property. If the private layout
// changes, ok=false is returned and callers degrade (no merging on shape / invariant
// reported as unavailable).
package peek

import (
	"reflect"
	"unsafe"
)

type Spine struct {
	Len, Cap int
	Ptr      uintptr
	p        unsafe.Pointer
}

// concrete walks through embedding wrappers (derived types embedding the interface) to the *list / *object.
func concrete(v interface{}) reflect.Value {
	rv := reflect.ValueOf(v)
	for i := 0; i < 8; i++ {
		if rv.Kind() == reflect.Interface || rv.Kind() == reflect.Ptr {
			if rv.IsNil() {
				return reflect.Value{}
			}
			rv = rv.Elem()
			continue
		}
		break
	}
	return rv
}

// List returns the spine shape of a list handle.
func List(l interface{}) (s Spine, ok bool) {
	defer func() {
		if recover() != nil {
			ok = false
		}
	}()
	rv := concrete(l)
	if !rv.IsValid() || rv.Kind() != reflect.Struct {
		return s, false
	}
	f := rv.FieldByName("val")
	if !f.IsValid() || f.Kind() != reflect.Slice {
		return s, false
	}
	return Spine{f.Len(), f.Cap(), f.Pointer(), f.UnsafePointer()}, true
}

// SlotWords returns the raw words of all cap slots of the spine (each slot is a 2-word
// interface value), including the spare ones beyond len. Used only for the C15
// write-freedom invariant: equal before/after means nobody wrote to the spine.
func SlotWords(l interface{}) (words []uintptr, ok bool) {
	defer func() {
		if recover() != nil {
			ok = false
		}
	}()
	s, ok := List(l)
	if !ok {
		return nil, false
	}
	if s.Cap == 0 || s.p == nil {
		return nil, true
	}
	n := s.Cap * 2
	src := unsafe.Slice((*uintptr)(s.p), n)
	words = make([]uintptr, n)
	copy(words, src)
	return words, true
}

// Map returns the identity pointer and length of an object's map.
func Map(o interface{}) (ptr uintptr, n int, ok bool) {
	defer func() {
		if recover() != nil {
			ok = false
		}
	}()
	rv := concrete(o)
	if !rv.IsValid() || rv.Kind() != reflect.Struct {
		return 0, 0, false
	}
	f := rv.FieldByName("val")
	if !f.IsValid() || f.Kind() != reflect.Map {
		return 0, 0, false
	}
	return f.Pointer(), f.Len(), true
}
