// Package jsonref is the harness's independent JSON reference: a strict RFC 8259
// recogniser/tokeniser (shares no code with the library or encoding/json), an exact
// number oracle on math/big, comparison of encoding/json output with a specification
// tree, and the canonical re-indenter used for FormatString.
package jsonref

import (
	"bytes"
	"encoding/json"
	"fmt"
	"math"
	"math/big"
	"strings"
	"unicode/utf8"

	"verif/spec"
)

// Tok is one token of a JSON text.
type Tok struct {
	Kind byte   // one of [ ] { } , : s(tring) n(umber) l(iteral true/false/null)
	Text string // raw text of the token (strings include their quotes)
}

type scanner struct {
	s    string
	i    int
	toks []Tok
	keep bool
	ws   func(ws string) // optional: called with every whitespace run (may be empty) between tokens
}

func (p *scanner) skip() {
	st := p.i
	for p.i < len(p.s) {
		switch p.s[p.i] {
		case ' ', '\t', '\n', '\r':
			p.i++
			continue
		}
		break
	}
	if p.ws != nil {
		p.ws(p.s[st:p.i])
	}
}

func (p *scanner) emit(k byte, from int) {
	if p.keep {
		p.toks = append(p.toks, Tok{k, p.s[from:p.i]})
	}
}

func (p *scanner) value(depth int) bool {
	if depth > 100000 || p.i >= len(p.s) {
		return false
	}
	switch c := p.s[p.i]; {
	case c == '[':
		st := p.i
		p.i++
		p.emit('[', st)
		p.skip()
		if p.i < len(p.s) && p.s[p.i] == ']' {
			st = p.i
			p.i++
			p.emit(']', st)
			return true
		}
		for {
			if !p.value(depth + 1) {
				return false
			}
			p.skip()
			if p.i >= len(p.s) {
				return false
			}
			st = p.i
			if p.s[p.i] == ',' {
				p.i++
				p.emit(',', st)
				p.skip()
				continue
			}
			if p.s[p.i] == ']' {
				p.i++
				p.emit(']', st)
				return true
			}
			return false
		}
	case c == '{':
		st := p.i
		p.i++
		p.emit('{', st)
		p.skip()
		if p.i < len(p.s) && p.s[p.i] == '}' {
			st = p.i
			p.i++
			p.emit('}', st)
			return true
		}
		for {
			if p.i >= len(p.s) || p.s[p.i] != '"' || !p.str() {
				return false
			}
			p.skip()
			if p.i >= len(p.s) || p.s[p.i] != ':' {
				return false
			}
			st = p.i
			p.i++
			p.emit(':', st)
			p.skip()
			if !p.value(depth + 1) {
				return false
			}
			p.skip()
			if p.i >= len(p.s) {
				return false
			}
			st = p.i
			if p.s[p.i] == ',' {
				p.i++
				p.emit(',', st)
				p.skip()
				continue
			}
			if p.s[p.i] == '}' {
				p.i++
				p.emit('}', st)
				return true
			}
			return false
		}
	case c == '"':
		return p.str()
	case c == '-' || (c >= '0' && c <= '9'):
		return p.num()
	default:
		for _, lit := range []string{"true", "false", "null"} {
			if strings.HasPrefix(p.s[p.i:], lit) {
				st := p.i
				p.i += len(lit)
				p.emit('l', st)
				return true
			}
		}
		return false
	}
}

func isHex(c byte) bool {
	return (c >= '0' && c <= '9') || (c >= 'a' && c <= 'f') || (c >= 'A' && c <= 'F')
}

func (p *scanner) str() bool {
	st := p.i
	p.i++ // opening quote
	for p.i < len(p.s) {
		c := p.s[p.i]
		switch {
		case c == '"':
			p.i++
			p.emit('s', st)
			return true
		case c < 0x20:
			return false
		case c == '\\':
			if p.i+1 >= len(p.s) {
				return false
			}
			e := p.s[p.i+1]
			switch e {
			case '"', '\\', '/', 'b', 'f', 'n', 'r', 't':
				p.i += 2
			case 'u':
				if p.i+5 >= len(p.s) {
					return false
				}
				for k := 2; k < 6; k++ {
					if !isHex(p.s[p.i+k]) {
						return false
					}
				}
				p.i += 6
			default:
				return false
			}
		case c < 0x80:
			p.i++
		default:
			r, size := utf8.DecodeRuneInString(p.s[p.i:])
			if r == utf8.RuneError && size == 1 {
				return false
			}
			p.i += size
		}
	}
	return false
}

func (p *scanner) num() bool {
	st := p.i
	if p.s[p.i] == '-' {
		p.i++
	}
	if p.i >= len(p.s) {
		return false
	}
	if p.s[p.i] == '0' {
		p.i++
	} else if p.s[p.i] >= '1' && p.s[p.i] <= '9' {
		for p.i < len(p.s) && p.s[p.i] >= '0' && p.s[p.i] <= '9' {
			p.i++
		}
	} else {
		return false
	}
	if p.i < len(p.s) && p.s[p.i] == '.' {
		p.i++
		n := 0
		for p.i < len(p.s) && p.s[p.i] >= '0' && p.s[p.i] <= '9' {
			p.i++
			n++
		}
		if n == 0 {
			return false
		}
	}
	if p.i < len(p.s) && (p.s[p.i] == 'e' || p.s[p.i] == 'E') {
		p.i++
		if p.i < len(p.s) && (p.s[p.i] == '+' || p.s[p.i] == '-') {
			p.i++
		}
		n := 0
		for p.i < len(p.s) && p.s[p.i] >= '0' && p.s[p.i] <= '9' {
			p.i++
			n++
		}
		if n == 0 {
			return false
		}
	}
	p.emit('n', st)
	return true
}

// Valid reports whether s is exactly one RFC 8259 JSON text (any root value).
func Valid(s string) bool {
	p := &scanner{s: s}
	p.skip()
	if !p.value(0) {
		return false
	}
	p.skip()
	return p.i == len(s)
}

// Tokens tokenises a valid JSON text; ok is false if the text is not valid JSON.
// gaps[i] is the whitespace before token i; gaps[len(toks)] the trailing whitespace.
func Tokens(s string) (toks []Tok, gaps []string, ok bool) {
	p := &scanner{s: s, keep: true}
	p.ws = func(w string) { gaps = append(gaps, w) }
	// the recogniser calls skip() exactly once between consecutive tokens except between a
	// container opener and an immediately following closer, where it is also called once; so
	// gaps line up with tokens as long as every token is preceded by exactly one skip().
	// To keep that invariant simple we re-derive gaps from token offsets instead.
	p.ws = nil
	p.skip()
	if !p.value(0) {
		return nil, nil, false
	}
	p.skip()
	if p.i != len(s) {
		return nil, nil, false
	}
	toks = p.toks
	pos := 0
	for _, t := range toks {
		j := strings.Index(s[pos:], t.Text)
		if j < 0 {
			return nil, nil, false // only possible when the text changed under us (a library result aliasing a reused buffer)
		}
		// tokens appear in order; whitespace between them is only SP/HT/LF/CR so Index finds the next one
		gaps = append(gaps, s[pos:pos+j])
		pos += j + len(t.Text)
	}
	gaps = append(gaps, s[pos:])
	return toks, gaps, true
}

// NumberIsInt reports whether a JSON number literal has neither fraction nor exponent.
func NumberIsInt(lit string) bool { return !strings.ContainsAny(lit, ".eE") }

// NumberFloat returns the correctly rounded float64 of a JSON number literal using exact
// rational arithmetic (independent of strconv). ok=false when the literal is out of range.
func NumberFloat(lit string) (f float64, ok bool) {
	r, good := new(big.Rat).SetString(lit)
	if !good {
		return 0, false
	}
	f, _ = r.Float64()
	if math.IsInf(f, 0) {
		return f, false
	}
	if f == 0 && strings.HasPrefix(lit, "-") {
		f = math.Copysign(0, -1)
	}
	return f, true
}

// MatchDecoded compares what encoding/json (UseNumber) decoded with the specification tree.
// zeroSignFree: the sign of a float zero is not compared (JSON readers differ on -0).
func MatchDecoded(dec interface{}, v *spec.V, path string) string {
	switch v.K {
	case spec.Nil:
		if dec != nil {
			return fmt.Sprintf("%s: want null, decoder saw %T(%v)", path, dec, dec)
		}
	case spec.Bool:
		b, ok := dec.(bool)
		if !ok || b != v.B {
			return fmt.Sprintf("%s: want %v, decoder saw %T(%v)", path, v.B, dec, dec)
		}
	case spec.Int:
		n, ok := dec.(json.Number)
		if !ok {
			return fmt.Sprintf("%s: want int %d, decoder saw %T(%v)", path, v.I, dec, dec)
		}
		bi, good := new(big.Int).SetString(string(n), 10)
		if !NumberIsInt(string(n)) || !good || bi.Cmp(big.NewInt(int64(v.I))) != 0 {
			return fmt.Sprintf("%s: int %d serialised as literal %q", path, v.I, string(n))
		}
	case spec.Float:
		n, ok := dec.(json.Number)
		if !ok {
			return fmt.Sprintf("%s: want float %v, decoder saw %T(%v)", path, v.F, dec, dec)
		}
		f, good := NumberFloat(string(n))
		if !good || f != v.F {
			return fmt.Sprintf("%s: float %v (bits %016x) serialised as literal %q which denotes %v", path, v.F, math.Float64bits(v.F), string(n), f)
		}
	case spec.Str:
		s, ok := dec.(string)
		if !ok || s != v.S {
			return fmt.Sprintf("%s: want string %+q, decoder saw %T(%+q)", path, v.S, dec, dec)
		}
	case spec.Lst:
		l, ok := dec.([]interface{})
		if !ok {
			return fmt.Sprintf("%s: want array, decoder saw %T", path, dec)
		}
		if len(l) != len(v.L) {
			return fmt.Sprintf("%s: want array of %d, decoder saw %d", path, len(v.L), len(l))
		}
		for i, e := range v.L {
			if m := MatchDecoded(l[i], e, fmt.Sprintf("%s#%d", path, i)); m != "" {
				return m
			}
		}
	case spec.Obj:
		o, ok := dec.(map[string]interface{})
		if !ok {
			return fmt.Sprintf("%s: want object, decoder saw %T", path, dec)
		}
		if len(o) != len(v.KV) {
			return fmt.Sprintf("%s: want object of %d keys, decoder saw %d", path, len(v.KV), len(o))
		}
		for _, e := range v.KV {
			x, ok := o[e.K]
			if !ok {
				return fmt.Sprintf("%s: key %+q missing after decoding", path, e.K)
			}
			if m := MatchDecoded(x, e.V, path+"."+e.K); m != "" {
				return m
			}
		}
	}
	return ""
}

// Decode runs encoding/json with UseNumber and requires the whole text to be one value.
func Decode(text string) (interface{}, error) {
	d := json.NewDecoder(strings.NewReader(text))
	d.UseNumber()
	var out interface{}
	if err := d.Decode(&out); err != nil {
		return nil, err
	}
	if d.More() {
		return nil, fmt.Errorf("trailing data")
	}
	var extra interface{}
	if err := d.Decode(&extra); err == nil {
		return nil, fmt.Errorf("trailing value")
	}
	return out, nil
}

// Reindent lays a valid JSON text out canonically: one element per line, n spaces per
// nesting level, `"key": value`, empty containers inline, no trailing newline.
func Reindent(text string, n int) (string, bool) {
	toks, _, ok := Tokens(text)
	if !ok {
		return "", false
	}
	var b bytes.Buffer
	ind := strings.Repeat(" ", n)
	depth := 0
	nl := func() {
		b.WriteByte('\n')
		for i := 0; i < depth; i++ {
			b.WriteString(ind)
		}
	}
	for i, t := range toks {
		switch t.Kind {
		case '[', '{':
			b.WriteString(t.Text)
			if i+1 < len(toks) && (toks[i+1].Kind == ']' || toks[i+1].Kind == '}') {
				continue
			}
			depth++
			nl()
		case ']', '}':
			if i > 0 && (toks[i-1].Kind == '[' || toks[i-1].Kind == '{') {
				b.WriteString(t.Text)
				continue
			}
			depth--
			nl()
			b.WriteString(t.Text)
		case ',':
			b.WriteString(",")
			nl()
		case ':':
			b.WriteString(": ")
		default:
			b.WriteString(t.Text)
		}
	}
	return b.String(), true
}
