// Package ev is the shared run context of every check: counters, distinct-case
// sets, samples, violation collection with five-fold re-execution, known-finding
// matching, deadline handling and the evidence/replay writers.
package ev

import (
	"bufio"
	"encoding/json"
	"fmt"
	"hash/fnv"
	"os"
	"path/filepath"
	"runtime"
	"sort"
	"strconv"
	"strings"
	"sync"
	"sync/atomic"
	"time"
)

// Violation is one observed breach of a property.
type Violation struct {
	Sig     string      // specific signature used for known-finding matching
	Msg     string      // human-readable: observed vs expected
	Witness interface{} // replayable witness (JSON-serialisable)
}

// Ctx is handed to a check.
type Ctx struct {
	ID       string
	Tier     string // quick | thorough
	Seed     int64
	Level    string
	Root     string // directory holding evidence/, replay/, known_findings.txt
	Workers  int
	Start    time.Time
	Deadline time.Time

	evals   int64
	nontriv shardedSet
	states  int64
	trans   int64

	mu         sync.Mutex
	samples    []interface{}
	tagCount   map[string]int64
	sampleCap  int
	viol       map[string]*Violation // by signature (first witness kept)
	violCount  map[string]int
	extra      map[string]interface{}
	assume     []string
	rule       string
	exhaust    bool
	cut        []string
	known      []knownEntry
	flaky      []string
	flakyCount map[string]int
}

type knownEntry struct {
	Status, Prop, Sig, Rest string
}

type shardedSet struct {
	n  int64
	sh [64]struct {
		mu sync.Mutex
		m  map[uint64]struct{}
	}
}

// setCap bounds the memory of a distinct-case set (8 bytes + map overhead per entry); beyond it no
// new entries are stored, so the reported count is a lower bound (stated in the evidence).
const setCap = 40_000_000

func (s *shardedSet) add(h uint64) bool {
	if atomic.LoadInt64(&s.n) >= setCap {
		return false
	}
	x := &s.sh[h&63]
	x.mu.Lock()
	if x.m == nil {
		x.m = map[uint64]struct{}{}
	}
	_, ok := x.m[h]
	if !ok {
		x.m[h] = struct{}{}
		atomic.AddInt64(&s.n, 1)
	}
	x.mu.Unlock()
	return !ok
}

func (s *shardedSet) size() int {
	n := 0
	for i := range s.sh {
		s.sh[i].mu.Lock()
		n += len(s.sh[i].m)
		s.sh[i].mu.Unlock()
	}
	return n
}

// Hash is FNV-1a of a string.
func Hash(s string) uint64 {
	h := fnv.New64a()
	h.Write([]byte(s))
	return h.Sum64()
}

// New creates the context. root is the /verif directory (or a snapshot of it).
func New(id, tier, level, root string) *Ctx {
	seed, _ := strconv.ParseInt(os.Getenv("VERIF_SEED"), 10, 64)
	w := runtime.NumCPU()
	if s := os.Getenv("VERIF_WORKERS"); s != "" {
		if n, err := strconv.Atoi(s); err == nil && n > 0 {
			w = n
		}
	}
	c := &Ctx{ID: id, Tier: tier, Seed: seed, Level: level, Root: root, Workers: w,
		Start: time.Now(), sampleCap: 12, viol: map[string]*Violation{}, violCount: map[string]int{},
		extra: map[string]interface{}{}, exhaust: true}
	budget := 10 * time.Minute
	if tier == "thorough" {
		budget = 40 * time.Minute
	}
	if s := os.Getenv("VERIF_BUDGET_S"); s != "" {
		if n, err := strconv.Atoi(s); err == nil && n > 0 {
			budget = time.Duration(n) * time.Second
		}
	}
	c.Deadline = c.Start.Add(budget)
	c.loadKnown()
	return c
}

func (c *Ctx) Thorough() bool { return c.Tier == "thorough" }

// Expired reports whether the internal deadline passed; the caller stops enumerating
// and the run is reported as not exhaustive (exit 0).
func (c *Ctx) Expired() bool { return time.Now().After(c.Deadline) }

// Cut records that part of the space was not completed (deadline or cap).
func (c *Ctx) Cut(what string) {
	c.mu.Lock()
	c.exhaust = false
	c.cut = append(c.cut, what)
	c.mu.Unlock()
}

func (c *Ctx) Eval(n int)         { atomic.AddInt64(&c.evals, int64(n)) }
func (c *Ctx) Evals() int64       { return atomic.LoadInt64(&c.evals) }
func (c *Ctx) AddStates(n int)    { atomic.AddInt64(&c.states, int64(n)) }
func (c *Ctx) AddTrans(n int)     { atomic.AddInt64(&c.trans, int64(n)) }
func (c *Ctx) States() int64      { return atomic.LoadInt64(&c.states) }
func (c *Ctx) Trans() int64       { return atomic.LoadInt64(&c.trans) }
func (c *Ctx) Rule(s string)      { c.rule = s }
func (c *Ctx) Assume(s ...string) { c.mu.Lock(); c.assume = append(c.assume, s...); c.mu.Unlock() }

// Nontrivial records a case that is non-trivial by the check's rule; distinctness by key.
func (c *Ctx) Nontrivial(key string) { c.nontriv.add(Hash(key)) }
func (c *Ctx) NontrivialH(h uint64)  { c.nontriv.add(h) }

// NontrivialNew is NontrivialH reporting whether the case was new.
func (c *Ctx) NontrivialNew(h uint64) bool { return c.nontriv.add(h) }

// Sample keeps the first few samples offered under distinct tags (cheap to call often).
func (c *Ctx) Sample(s interface{}) {
	c.mu.Lock()
	if len(c.samples) < c.sampleCap {
		c.samples = append(c.samples, s)
	}
	c.mu.Unlock()
}

// SampleTag keeps the 2nd, 1 000th and 100 000th case offered under a tag, so samples are
// spread over the phases of a run instead of being its first few cases.
func (c *Ctx) SampleTag(tag string, f func() interface{}) {
	c.mu.Lock()
	if c.tagCount == nil {
		c.tagCount = map[string]int64{}
	}
	c.tagCount[tag]++
	n := c.tagCount[tag]
	c.mu.Unlock()
	if n == 2 || n == 1000 || n == 100000 {
		v := f()
		c.mu.Lock()
		if len(c.samples) < 40 {
			c.samples = append(c.samples, v)
		}
		c.mu.Unlock()
	}
}

func (c *Ctx) SampleCount() int { c.mu.Lock(); defer c.mu.Unlock(); return len(c.samples) }

// Set stores an extra coverage key.
func (c *Ctx) Set(k string, v interface{}) { c.mu.Lock(); c.extra[k] = v; c.mu.Unlock() }

// Add adds to an extra integer coverage key.
func (c *Ctx) Add(k string, n int64) {
	c.mu.Lock()
	cur, _ := c.extra[k].(int64)
	c.extra[k] = cur + n
	c.mu.Unlock()
}

// Violate records a violation. recheck, if non-nil, re-executes the witness and returns
// the violation signature it observes now ("" = no violation); it is run 5 times and must
// reproduce the same signature, otherwise the run is a harness error (exit 2). (Messages may
// legitimately differ between runs in the order Go maps are iterated; signatures may not.)
func (c *Ctx) Violate(v Violation, recheck func() string) {
	c.mu.Lock()
	c.violCount[v.Sig]++
	_, seen := c.viol[v.Sig]
	c.mu.Unlock()
	if seen {
		return
	}
	if recheck != nil {
		matches, last := 0, ""
		for i := 0; i < 5; i++ {
			if m := recheck(); m == v.Sig {
				matches++
			} else {
				last = m
			}
		}
		switch {
		case matches == 5:
		case matches >= 1:
			// The harness is deterministic; an outcome that recurs only sometimes depends on something inside the
			// code under test that the harness does not control (typically the order of a Go map iteration).
			// It was observed on the real code and observed again: it is reported, with its reproduction rate.
			v.Msg += fmt.Sprintf("  [intermittent: reproduced in %d of 5 re-executions of the same witness]", matches)
		default:
			// Not reproduced at all: this happens when the code under test carries state from one execution to the
			// next (a package-level cache, a shared buffer). The candidate is kept aside: it is never reported as a
			// VIOLATION by itself; if the run ends with nothing reproducible, the run is a harness error (exit 2).
			// Exception: the SAME signature observed on three or more different witnesses, each of which then
			// behaved correctly five times, is not a fluke of one execution but behaviour that depends on timing or on
			// state left behind (a result still being written after the call returned, say). From the third
			// independent observation on it is reported, marked as such.
			c.mu.Lock()
			if len(c.flaky) < 20 {
				c.flaky = append(c.flaky, fmt.Sprintf("sig=%s msg=%q re-executions observed sig=%q", v.Sig, v.Msg, last))
			}
			if c.flakyCount == nil {
				c.flakyCount = map[string]int{}
			}
			c.flakyCount[v.Sig]++
			n := c.flakyCount[v.Sig]
			c.mu.Unlock()
			if n < 3 {
				return
			}
			v.Msg += fmt.Sprintf("  [not reproduced in 5 immediate re-executions, but observed independently on %d different witnesses: timing- or history-dependent]", n)
		}
	}
	c.mu.Lock()
	if _, ok := c.viol[v.Sig]; !ok {
		vv := v
		c.viol[v.Sig] = &vv
	}
	c.mu.Unlock()
}

// Violations returns the number of distinct violation signatures so far.
func (c *Ctx) Violations() int { c.mu.Lock(); defer c.mu.Unlock(); return len(c.viol) }

// TooMany lets enumerations stop early once plenty of distinct signatures are collected.
func (c *Ctx) TooMany() bool { return c.Violations() >= 40 }

func (c *Ctx) loadKnown() {
	f, err := os.Open(filepath.Join(c.Root, "known_findings.txt"))
	if err != nil {
		return
	}
	defer f.Close()
	sc := bufio.NewScanner(f)
	for sc.Scan() {
		line := strings.TrimSpace(sc.Text())
		if line == "" || strings.HasPrefix(line, "//") {
			continue
		}
		// open: property=<id> sig=<signature> <what fails>
		// fixed: property=<id> <commit> <what failed>
		colon := strings.Index(line, ":")
		if colon < 0 {
			continue
		}
		status := line[:colon]
		rest := strings.Fields(line[colon+1:])
		e := knownEntry{Status: status}
		var tail []string
		for _, w := range rest {
			switch {
			case strings.HasPrefix(w, "property=") && e.Prop == "":
				e.Prop = strings.TrimPrefix(w, "property=")
			case strings.HasPrefix(w, "sig=") && e.Sig == "":
				e.Sig = strings.TrimPrefix(w, "sig=")
			default:
				tail = append(tail, w)
			}
		}
		e.Rest = strings.Join(tail, " ")
		c.known = append(c.known, e)
	}
}

func (c *Ctx) knownOpen(sig string) *knownEntry {
	for i := range c.known {
		k := &c.known[i]
		if k.Status == "open" && k.Prop == c.ID && k.Sig == sig {
			return k
		}
	}
	return nil
}

// Finish writes evidence and replay files, prints the verdict lines and returns the exit code.
func (c *Ctx) Finish() int {
	wall := time.Since(c.Start).Seconds()
	sigs := make([]string, 0, len(c.viol))
	for s := range c.viol {
		sigs = append(sigs, s)
	}
	sort.Strings(sigs)
	exit := 0
	unknown := 0
	var knownLines []string
	os.MkdirAll(filepath.Join(c.Root, "replay"), 0o755)
	for i, s := range sigs {
		v := c.viol[s]
		if k := c.knownOpen(s); k != nil {
			line := fmt.Sprintf("KNOWN-FINDING: property=%s sig=%s %s (occurrences this run: %d)", c.ID, s, k.Rest, c.violCount[s])
			fmt.Println(line)
			knownLines = append(knownLines, line)
			continue
		}
		unknown++
		path := filepath.Join(c.Root, "replay", fmt.Sprintf("%s-%d.json", c.ID, i))
		b, _ := json.MarshalIndent(map[string]interface{}{
			"property": c.ID, "signature": s, "message": v.Msg, "witness": v.Witness,
			"occurrences": c.violCount[s], "tier": c.Tier,
		}, "", " ")
		os.WriteFile(path, b, 0o644)
		fmt.Printf("  violation sig=%s occurrences=%d\n    %s\n", s, c.violCount[s], v.Msg)
		fmt.Printf("VIOLATION property=%s replay=%s\n", c.ID, path)
		exit = 1
	}
	if len(c.flaky) > 0 {
		for _, f := range c.flaky {
			fmt.Printf("  non-reproducible candidate (state carried between executions by the code under test?): %s\n", f)
		}
		if exit == 0 && len(knownLines) == 0 {
			fmt.Printf("HARNESS-ERROR property=%s %d violation candidate(s) could not be reproduced and nothing reproducible was found\n", c.ID, len(c.flaky))
			return 2
		}
	}
	cov := map[string]interface{}{}
	for k, v := range c.extra {
		cov[k] = v
	}
	cov["evaluations"] = c.Evals()
	cov["distinct_nontrivial"] = c.nontriv.size()
	if c.nontriv.size() >= setCap {
		cov["distinct_nontrivial_note"] = fmt.Sprintf("lower bound: the distinct-case set is capped at %d entries to bound memory", setCap)
	}
	cov["rule"] = c.rule
	if len(c.samples) == 0 {
		c.samples = append(c.samples, "(no sample recorded)")
	}
	cov["samples"] = c.samples
	cov["exhaustive"] = c.exhaust
	if len(c.cut) > 0 {
		cov["not_completed"] = c.cut
	}
	if c.Level == "model_checking" {
		cov["states"] = c.States()
		cov["transitions"] = c.Trans()
		if _, ok := cov["traces_validated_against_impl"]; !ok {
			cov["traces_validated_against_impl"] = c.Trans()
		}
	}
	if len(knownLines) > 0 {
		cov["known_findings_reported"] = knownLines
	}
	cov["workers"] = c.Workers
	evd := map[string]interface{}{
		"property_id": c.ID, "tier": c.Tier, "seed": c.Seed, "level": c.Level,
		"coverage": cov, "assumptions": c.assume, "wall_s": wall, "violations": unknown,
	}
	if c.assume == nil {
		evd["assumptions"] = []string{}
	}
	os.MkdirAll(filepath.Join(c.Root, "evidence"), 0o755)
	b, err := json.MarshalIndent(evd, "", " ")
	if err != nil {
		fmt.Printf("HARNESS-ERROR property=%s cannot encode evidence: %v\n", c.ID, err)
		return 2
	}
	if err := os.WriteFile(filepath.Join(c.Root, "evidence", c.ID+".json"), append(b, '\n'), 0o644); err != nil {
		fmt.Printf("HARNESS-ERROR property=%s cannot write evidence: %v\n", c.ID, err)
		return 2
	}
	fmt.Printf("%s %s: evaluations=%d distinct_nontrivial=%d states=%d transitions=%d exhaustive=%v violations=%d known=%d wall=%.1fs\n",
		c.ID, c.Tier, c.Evals(), c.nontriv.size(), c.States(), c.Trans(), c.exhaust, unknown, len(knownLines), wall)
	return exit
}

// Harness aborts with a harness error (exit 2): the machinery itself is wrong, not the code under test.
func Harness(id string, format string, a ...interface{}) {
	fmt.Printf("HARNESS-ERROR property=%s %s\n", id, fmt.Sprintf(format, a...))
	os.Exit(2)
}

// Try runs f and returns the recovered panic value (nil if none) rendered as a string pointer.
func Try(f func()) (panicked bool, val interface{}) {
	defer func() {
		if r := recover(); r != nil {
			panicked, val = true, r
		}
	}()
	f()
	return
}
