#!/bin/bash
# Offline setup: pre-warm the Go build cache with the harness built against /repo.
set -e
cd "$(dirname "$0")"
export GOFLAGS=-mod=mod GOPROXY=off GOSUMDB=off GOTOOLCHAIN=local GOCACHE=/verif/.cache/go-build
mkdir -p /verif/.cache/go-build /verif/.cache/tmp evidence replay
( cd engine && go build -o /verif/.cache/tmp/vcheck.warm ./cmd/vcheck && rm -f /verif/.cache/tmp/vcheck.warm )
[ -x engine/c15/build.sh ] && { W=$(mktemp -d /verif/.cache/tmp/setup.XXXXXX); engine/c15/build.sh /repo "$W" "$PWD" >/dev/null 2>&1 || true; rm -rf "$W"; }
echo setup ok
